"""C06 — every formula sample is computed from inputs of a single timestamp."""
from __future__ import annotations

import asyncio

from harness.common import E, EI, TS, z3, core
from harness import fx
from harness.fx import Power, Sample, Broadcast
from symx.runner import Instance

from datetime import timedelta
from frequenz.sdk.timeseries.formula_engine._formula_engine import FormulaBuilder

ID = "C06"
LEVEL = "model_checking"
install = fx.install
FUNCTIONS = ["FormulaEvaluator.apply", "FormulaEvaluator._synchronize_metric_timestamps", "MetricFetcher.fetch_next/apply", "FormulaEngine._run/new_receiver", "FormulaEngine3Phase._run",
             "Adder.apply", "frequenz.channels Broadcast receivers (third party, executed as is)"]
SHIMS = fx.SHIMS + ["timestamps are proxy datetimes (Int microseconds) used as keys of the evaluator's own dict (constant hash, equality decided by the solver)"]
ASSUMPTIONS = [
    "stream s carries K samples stamped T0 + (o_s + k) * 1 s, k = 0..K-1; the first-timestamp offsets o_s are symbolic integers in [0, 2]; all values symbolic reals",
    "formula = sum of all streams, so the output value reveals exactly which (stream, sample) pairs were combined",
    "delivery (symbolic choice): everything preloaded before the consumer starts; consumer started first then everything sent; lock-step rounds; "
    "one stream delivered only after all the others are exhausted",
    "interleave instances: the delivery order is a symbolic choice per step (which stream delivers next, whether the engine runs before the next delivery) and the consumer "
    "subscribes after a symbolic number of deliveries, so every FIFO-preserving schedule within the bound is explored, not sampled",
    "beyond that bound: other interleavings that respect per-stream FIFO order cannot change what blocking FIFO reads return (Kahn-network argument): stated, not checked",
]
BOUNDS = {"quick": "2 and 3 streams, K = 4 samples per stream, 4 delivery modes; 3-phase engine with per-phase offsets; 2 streams x 3 samples under every delivery interleaving / yield pattern / subscription point", "thorough": "4 streams, K = 5, offsets in [0, 3]; interleavings of 3 streams x 2 samples and 2 streams x 4 samples"}
OUTSIDE = "receiver overflow (capacity 50 never reached); more streams"
BUDGET = {"quick": 300, "thorough": 600}
PER = timedelta(seconds=1)


def make(ns, K, omax=2, reach=False):
    def fn(ex):
        offs = [ex.int_(f"o{i}", 0, omax) for i in range(ns)]
        vals = [[ex.real(f"v{i}_{k}") for k in range(K)] for i in range(ns)]
        mode = ex.choice("mode", 4)
        late = ex.choice("late_stream", ns) if mode == 3 else 0

        async def scenario():
            chans = [Broadcast[Sample[Power]](name=f"c{i}") for i in range(ns)]
            b = FormulaBuilder("f", Power.from_watts)
            for i in range(ns):
                if i:
                    b.push_oper("+")
                b.push_metric(f"m{i}", chans[i].new_receiver(limit=100), nones_are_zeros=False)
            eng = b.build()
            snd = [c.new_sender() for c in chans]

            async def send(i, k):
                await snd[i].send(Sample(TS + (offs[i] + k) * PER, Power.from_watts(vals[i][k])))
            rx = None
            if mode != 0:
                rx = eng.new_receiver(max_size=100)
            if mode in (0, 1):
                for i in range(ns):
                    for k in range(K):
                        await send(i, k)
            elif mode == 2:
                for k in range(K):
                    for i in range(ns):
                        await send(i, k)
                    await asyncio.sleep(1.0)
            else:
                for i in range(ns):
                    if i != late:
                        for k in range(K):
                            await send(i, k)
                await asyncio.sleep(3.0)
                for k in range(K):
                    await send(late, k)
                    await asyncio.sleep(0.5)
            if rx is None:
                rx = eng.new_receiver(max_size=100)
            outs = []
            while True:
                try:
                    outs.append(await asyncio.wait_for(rx.receive(), 5.0))
                except asyncio.TimeoutError:
                    break
            await eng._stop()
            return outs
        try:
            outs = fx.run_loop(scenario())
        except fx.Livelock:
            ex.check(False, "engine spins without emitting")
            return
        if reach:
            if len(outs) >= 2:
                ex.check(False, "reach")
            return
        o = [ex.realize_int(EI(x)) for x in offs]
        mx, mn = max(o), min(o)
        expected_n = K - (mx - mn)
        ex.observe("n_outputs", len(outs))
        ex.check(len(outs) == expected_n, f"{len(outs)} samples emitted, expected {expected_n} (offsets {o})")
        for m, out in enumerate(outs[:expected_n]):
            ex.check(EI(out.timestamp) == EI(TS + (mx + m) * PER), f"timestamp of output {m} is not latest-first-timestamp + {m} steps")
            if out.value is None:
                ex.check(False, f"output {m} is None although every input of its timestamp is present")
                continue
            exp = 0.0
            for i in range(ns):
                exp = exp + vals[i][mx - o[i] + m]
            prop = fx.close_enough(out.value.base_value, exp) if ex.concrete else E(out.value.base_value) == E(exp)
            ex.check(prop, f"value of output {m} is not computed from the inputs stamped with its timestamp")
    return fn


def make_interleave(ns, K, omax=1, reach=False):
    """Arbitrary FIFO-preserving delivery interleaving: at every step the solver picks which stream delivers its next sample and whether
    the engine gets to run before the next delivery; the consumer subscribes after a symbolic number of deliveries."""
    def fn(ex):
        offs = [ex.int_(f"o{i}", 0, omax) for i in range(ns)]
        vals = [[ex.real(f"v{i}_{k}") for k in range(K)] for i in range(ns)]
        total = ns * K
        start_at = ex.choice("consumer_starts_after", total + 1)

        async def scenario():
            chans = [Broadcast[Sample[Power]](name=f"c{i}") for i in range(ns)]
            b = FormulaBuilder("f", Power.from_watts)
            for i in range(ns):
                if i:
                    b.push_oper("+")
                b.push_metric(f"m{i}", chans[i].new_receiver(limit=100), nones_are_zeros=False)
            eng = b.build()
            snd = [c.new_sender() for c in chans]
            nxt = [0] * ns
            rx = None
            for step in range(total):
                if step == start_at:
                    rx = eng.new_receiver(max_size=100)
                live = [i for i in range(ns) if nxt[i] < K]
                i = live[ex.choice(f"pick{step}", len(live))] if len(live) > 1 else live[0]
                await snd[i].send(Sample(TS + (offs[i] + nxt[i]) * PER, Power.from_watts(vals[i][nxt[i]])))
                nxt[i] += 1
                if ex.choice(f"yield{step}", 2):
                    await asyncio.sleep(0.25)
            if rx is None:
                rx = eng.new_receiver(max_size=100)
            outs = []
            while True:
                try:
                    outs.append(await asyncio.wait_for(rx.receive(), 5.0))
                except asyncio.TimeoutError:
                    break
            await eng._stop()
            return outs
        try:
            outs = fx.run_loop(scenario())
        except fx.Livelock:
            ex.check(False, "engine spins without emitting")
            return
        if reach:
            if len(outs) >= 2:
                ex.check(False, "reach")
            return
        o = [ex.realize_int(EI(x)) for x in offs]
        mx, mn = max(o), min(o)
        expected_n = K - (mx - mn)
        ex.check(len(outs) == expected_n, f"{len(outs)} samples emitted, expected {expected_n} (offsets {o}, consumer subscribed after {start_at} deliveries)")
        for m, out in enumerate(outs[:expected_n]):
            ex.check(EI(out.timestamp) == EI(TS + (mx + m) * PER), f"timestamp of output {m} is not latest-first-timestamp + {m} steps")
            if out.value is None:
                ex.check(False, f"output {m} is None although every input of its timestamp is present")
                continue
            exp = 0.0
            for i in range(ns):
                exp = exp + vals[i][mx - o[i] + m]
            prop = fx.close_enough(out.value.base_value, exp) if ex.concrete else E(out.value.base_value) == E(exp)
            ex.check(prop, f"value of output {m} is not computed from the inputs stamped with its timestamp")
    return fn


def make_3phase(K, omax=2, reach=False):
    """FormulaEngine3Phase zipping three per-phase engines whose input streams begin at different timestamps."""
    from frequenz.sdk.timeseries.formula_engine._formula_engine import FormulaEngine, FormulaEngine3Phase

    def fn(ex):
        offs = [ex.int_(f"o{i}", 0, omax) for i in range(3)]
        vals = [[ex.real(f"v{i}_{k}") for k in range(K)] for i in range(3)]

        async def scenario():
            chans = [Broadcast[Sample[Power]](name=f"c{i}") for i in range(3)]
            engs = [FormulaEngine.from_receiver(f"phase{i}", chans[i].new_receiver(limit=100), Power.from_watts) for i in range(3)]
            e3 = FormulaEngine3Phase("three", Power.from_watts, (engs[0], engs[1], engs[2]))
            rx = e3.new_receiver(max_size=100)
            await asyncio.sleep(0.01)
            snd = [c.new_sender() for c in chans]
            for i in range(3):
                for k in range(K):
                    await snd[i].send(Sample(TS + (offs[i] + k) * PER, Power.from_watts(vals[i][k])))
            outs = []
            while True:
                try:
                    outs.append(await asyncio.wait_for(rx.receive(), 5.0))
                except asyncio.TimeoutError:
                    break
            await e3._stop()
            for e in engs:
                await e._stop()
            return outs
        outs = fx.run_loop(scenario())
        if reach:
            if outs:
                ex.check(False, "reach")
            return
        o = [ex.realize_int(EI(x)) for x in offs]
        exp_n = K - (max(o) - min(o))
        ex.check(len(outs) == max(0, exp_n), f"{len(outs)} 3-phase samples emitted, expected {exp_n} (offsets {o})")
        for m, out in enumerate(outs):
            k = ex.realize_int((EI(out.timestamp) - core.dt_us(TS)) / 1_000_000)
            ex.check(k == max(o) + m, f"3-phase sample {m} is stamped T0+{k}s, expected T0+{max(o) + m}s")
            for i, v in enumerate((out.value_p1, out.value_p2, out.value_p3)):
                idx = k - o[i]
                if not 0 <= idx < K:
                    ex.check(False, f"3-phase sample stamped T0+{k}s contains a phase-{i + 1} value although that phase has no input stamped so")
                    continue
                ex.check(v is not None and bool(v.base_value == vals[i][idx]) if ex.concrete else (v is not None and E(v.base_value) == E(vals[i][idx])),
                         f"3-phase sample: phase-{i + 1} value is not the one stamped with the sample's timestamp (offsets {o})")
    return fn


def instances(tier):
    I = Instance
    out = [I("reach:2x3", "make", (2, 3, 2, True), "reachability twin", budget_s=60, validate_every=0),
           I("2 streams K4", "make", (2, 4), "2 streams, 4 samples each, offsets 0..2", budget_s=200, validate_every=20),
           I("3 streams K4", "make", (3, 4), "3 streams, 4 samples each, offsets 0..2", budget_s=300, validate_every=50),
           I("3phase K4", "make_3phase", (4,), "FormulaEngine3Phase over three per-phase engines whose inputs begin at offsets 0..2", budget_s=200, validate_every=5)]
    out.append(I("reach:interleave", "make_interleave", (2, 2, 1, True), "reachability twin of the interleaving instance", budget_s=60, validate_every=0))
    out.append(I("interleave 2xK3", "make_interleave", (2, 3, 1), "2 streams x 3 samples, offsets 0..1: every FIFO-preserving delivery order (solver-chosen), engine allowed or not allowed to run "
                 "after each delivery, consumer subscribing after 0..6 deliveries", budget_s=240, validate_every=200))
    if tier != "quick":
        out.append(I("interleave 3xK2", "make_interleave", (3, 2, 1), "3 streams x 2 samples, offsets 0..1, every delivery order / yield pattern / subscription point (budgeted)", budget_s=150, exhaustive=False, validate_every=500))
        out.append(I("interleave 2xK4", "make_interleave", (2, 4, 2), "2 streams x 4 samples, offsets 0..2, every delivery order / yield pattern / subscription point (budgeted)", budget_s=150, exhaustive=False, validate_every=1000))
        out.append(I("3 streams K5 o3", "make", (3, 5, 3), "3 streams, 5 samples, offsets 0..3", budget_s=600, validate_every=100))
        out.append(I("4 streams K5", "make", (4, 5, 2), "4 streams, 5 samples, offsets 0..2", budget_s=900, validate_every=200))
    return out
