"""C03 — power manager target stays inside usable system bounds, history-free (Matryoshka)."""
from __future__ import annotations

from harness.common import E, TS, z3, core
from symx.runner import Instance

from datetime import timedelta

from frequenz.quantities import Power
from frequenz.sdk.timeseries._base_types import Bounds, SystemBounds
from frequenz.sdk.microgrid._power_managing._matryoshka import Matryoshka
from frequenz.sdk.microgrid._power_managing._base_classes import Proposal

ID = "C03"
LEVEL = "model_checking"
IDS = frozenset({1, 2})
W = Power.from_watts
FUNCTIONS = [
    "Matryoshka.calculate_target_power", "Matryoshka._calc_target_power", "Matryoshka.get_target_power",
    "Matryoshka._validate_component_ids", "Matryoshka.drop_old_proposals",
    "_bounds.clamp_to_bounds", "_bounds.adjust_exclusion_bounds", "_bounds.check_exclusion_bounds_overlap",
    "Proposal.__lt__/__eq__/__hash__", "frequenz.quantities.Quantity comparison/arith (third-party, executed as is)",
]
SHIMS = ["math.isclose/isnan/isinf/isfinite dispatch on proxies (exact over the reals)", "logging disabled"]
ASSUMPTIONS = [
    "floats are modelled as exact reals (IEEE rounding outside the claim)",
    "system bounds il <= 0 <= iu and exclusion zone el <= 0 <= eu (the zone may stick out of the inclusion bounds); proposal values unconstrained (any None pattern)",
    "PYTHONHASHSEED=0 (set iteration order of the proposal bucket fixed; only affects deletion order)",
]
BOUNDS = {
    "quick": "envelope: <=2 live proposals (all None patterns, distinct and equal priorities), every value symbolic; "
             "history/expiry: 2 actors, one replaced proposal, all arrival orders, symbolic creation times and loop time "
             "(replaced proposal fully specified)",
    "thorough": "quick + history with every None pattern of the replaced proposal, 3 live proposals (budgeted, not exhaustive)",
}
OUTSIDE = "more than 3 live proposals; IEEE rounding; overlapping component buckets (NotImplementedError by design)"
BUDGET = {"quick": 600, "thorough": 1800}


def sysbounds(ex, subset=False):
    """subset=True: additionally the exclusion zone lies inside the inclusion bounds (the documented contract of SystemBounds)"""
    il, iu, el, eu = ex.real("il"), ex.real("iu"), ex.real("el"), ex.real("eu")
    if subset:
        ex.assume(z3.And(E(il) <= E(el), E(eu) <= E(iu)))
    # the quantifier: lower <= 0 <= upper and an exclusion zone containing 0 (it may stick out of the inclusion bounds)
    ex.assume(z3.And(E(il) <= 0, 0 <= E(iu), E(el) <= 0, 0 <= E(eu)))
    sb = SystemBounds(timestamp=TS, inclusion_bounds=Bounds(W(il), W(iu)), exclusion_bounds=Bounds(W(el), W(eu)))
    return sb, (il, iu, el, eu)


def opt(ex, name, present=None):
    if present is None:
        present = ex.flag("has_" + name)
    return W(ex.real(name)) if present else None


def mkp(ex, tag, src, prio, ct=0.0, shape=None, ids=None):
    """shape None: every None pattern (symbolic flags); else a string out of 'plu' naming the fields that are present."""
    pr = (lambda c: None) if shape is None else (lambda c: c in shape)
    return Proposal(source_id=src, preferred_power=opt(ex, "p" + tag, pr("p")), bounds=Bounds(opt(ex, "l" + tag, pr("l")), opt(ex, "u" + tag, pr("u"))),
                    component_ids=ids or IDS, priority=prio, creation_time=ct, set_operating_point=False)


def envelope_ok(t, il, iu, el, eu):
    e = E(t)
    return z3.And(E(il) <= e, e <= E(iu), z3.Or(e == 0, e <= E(el), e >= E(eu)))


def make_envelope(n, prios, reach=False):
    def fn(ex):
        sb, (il, iu, el, eu) = sysbounds(ex)
        m = Matryoshka(max_proposal_age=timedelta(seconds=60))
        t = None
        for k in range(n):
            p = mkp(ex, str(k), f"s{k}", prios[k])
            t = m.calculate_target_power(IDS, p, sb, True)
            w = t.as_watts()
            ex.observe(f"target{k}", w)
            if reach:
                if k == n - 1:
                    ex.check(False, "reach")
                continue
            ex.check(envelope_ok(w, il, iu, el, eu), f"envelope after proposal {k}")
            g = m.get_target_power(IDS)
            ex.check(E(g.as_watts()) == E(w), "get_target_power != returned target")
    return fn


def colliding_names(prio):
    """Two source ids whose Proposal hashes land in the same slot of a small set (PYTHONHASHSEED is fixed), so that the
    iteration order of the proposal bucket is the insertion order: any code that depends on set order becomes history-dependent."""
    seen = {}
    for i in range(200):
        n = f"actor{i}"
        k = hash((prio, n)) & 7
        if k in seen and k < 6:
            return seen[k], n
        seen.setdefault(k, n)
    return "A", "B"


def make_history(order, shapes, eq_prio=False, expiry=True):
    """Two actors A (prio 2) and B (prio 1, or 2 with eq_prio).  `order` is a tuple of steps out of
    'A', 'B', 'A0' (an older proposal of A, later replaced), 'B0'.  The final live set is {A, B}.
    Compared with a fresh instance fed A then B.  With `expiry`, creation times and the loop time are symbolic and
    the target after drop_old_proposals must equal that of an instance that only ever saw the survivors."""
    shapes = dict(shapes)

    def fn(ex):
        sb, (il, iu, el, eu) = sysbounds(ex)
        if expiry:
            ctA, ctB, now = ex.real("ctA"), ex.real("ctB"), ex.real("now")
            ex.assume(z3.And(E(ctA) >= 0, E(ctB) >= 0, E(now) >= E(ctA), E(now) >= E(ctB)))
        else:
            ctA = ctB = 0.0
        pb = 2 if eq_prio else 1
        nA, nB = colliding_names(2) if eq_prio else ("A", "B")
        props = {"A": mkp(ex, "A", nA, 2, ctA, shapes.get("A")), "B": mkp(ex, "B", nB, pb, ctB, shapes.get("B"))}
        if "A0" in order:
            props["A0"] = mkp(ex, "A0", nA, 2, 0.0, shapes.get("A0"))
        if "B0" in order:
            props["B0"] = mkp(ex, "B0", nB, pb, 0.0, shapes.get("B0"))
        m1 = Matryoshka(max_proposal_age=timedelta(seconds=60))
        m1.calculate_target_power(IDS, props["A"], sb, True)
        t1 = m1.calculate_target_power(IDS, props["B"], sb, True)
        m2 = Matryoshka(max_proposal_age=timedelta(seconds=60))
        for step in order:
            m2.calculate_target_power(IDS, props[step], sb, True)
        t2 = m2.get_target_power(IDS)
        if t1 is None or t2 is None:
            ex.check(False, "no target although must_return_power / proposals exist")
            return
        ex.observe("t1", t1.as_watts())
        ex.observe("t2", t2.as_watts())
        ex.check(E(t1.as_watts()) == E(t2.as_watts()), f"target depends on history {order}")
        if not expiry:
            return
        # expiry on the second instance: proposals older than 60 s stop counting, the others keep counting
        m2.drop_old_proposals(now)
        t3 = m2.calculate_target_power(IDS, None, sb, True)
        if t3 is None:
            ex.check(False, "no target returned after expiry although must_return_power=True")
            return
        g3 = m2.get_target_power(IDS)
        ex.check(E(g3.as_watts()) == E(t3.as_watts()), "get_target_power stale after expiry")
        aliveA = ex.branch(E(now) - E(ctA) <= 60)
        aliveB = ex.branch(E(now) - E(ctB) <= 60)
        m3 = Matryoshka(max_proposal_age=timedelta(seconds=60))
        t4 = Power.zero()
        if aliveA:
            t4 = m3.calculate_target_power(IDS, props["A"], sb, True)
        if aliveB:
            t4 = m3.calculate_target_power(IDS, props["B"], sb, True)
        ex.observe("t3", t3.as_watts())
        ex.check(E(t3.as_watts()) == E(t4.as_watts()), "expired proposals still count / live ones dropped")
    return fn


IDS2 = frozenset({3, 4})


def make_two_groups(shapes):
    """One Matryoshka serving two component groups.  Actor A (priority 2) has a proposal in both groups (separate creation times), actor B
    (priority 1) in the second group only.  After the expiry sweep each group's target must equal that of a fresh instance fed only that
    group's surviving proposals: the groups are independent."""
    shapes = dict(shapes)

    def fn(ex):
        sb, (il, iu, el, eu) = sysbounds(ex)
        ct = {k: ex.real("ct" + k) for k in ("A1", "A2", "B2")}
        now = ex.real("now")
        for v in ct.values():
            ex.assume(z3.And(E(v) >= 0, E(now) >= E(v)))
        props = {"A1": mkp(ex, "A1", "A", 2, ct["A1"], shapes.get("A"), IDS), "A2": mkp(ex, "A2", "A", 2, ct["A2"], shapes.get("A"), IDS2),
                 "B2": mkp(ex, "B2", "B", 1, ct["B2"], shapes.get("B"), IDS2)}
        m = Matryoshka(max_proposal_age=timedelta(seconds=60))
        for k in ("A1", "A2", "B2"):
            m.calculate_target_power(props[k].component_ids, props[k], sb, True)
        m.drop_old_proposals(now)
        for ids, keys in ((IDS, ("A1",)), (IDS2, ("A2", "B2"))):
            t = m.calculate_target_power(ids, None, sb, True)
            fresh = Matryoshka(max_proposal_age=timedelta(seconds=60))
            exp = Power.zero()
            for k in keys:
                if ex.branch(E(now) - E(ct[k]) <= 60):
                    exp = fresh.calculate_target_power(ids, props[k], sb, True)
            if t is None:
                ex.check(False, "no target returned after expiry although must_return_power=True")
                continue
            ex.check(E(t.as_watts()) == E(exp.as_watts()), f"group {sorted(ids)}: target after the sweep differs from a fresh instance fed the group's live proposals")
    return fn


def make_perm3(perm):
    """Three live proposals (distinct priorities) arriving in order `perm`; compare with canonical order."""
    def fn(ex):
        sb, (il, iu, el, eu) = sysbounds(ex)
        props = [mkp(ex, str(k), f"s{k}", 3 - k) for k in range(3)]
        m1 = Matryoshka(max_proposal_age=timedelta(seconds=60))
        for p in props:
            t1 = m1.calculate_target_power(IDS, p, sb, True)
        m2 = Matryoshka(max_proposal_age=timedelta(seconds=60))
        for i in perm:
            m2.calculate_target_power(IDS, props[i], sb, True)
        t2 = m2.get_target_power(IDS)
        ex.check(envelope_ok(t1.as_watts(), il, iu, el, eu), "envelope n=3")
        ex.check(E(t1.as_watts()) == E(t2.as_watts()), f"target depends on arrival order {perm}")
    return fn


HIST_ORDERS = [("B", "A"), ("A0", "A", "B"), ("B", "A0", "A"), ("A0", "B", "A"), ("B0", "A", "B"), ("A", "B0", "B"), ("A0", "B0", "B", "A")]


def _sh(**kw):
    return tuple(sorted(kw.items()))


def instances(tier):
    I = Instance
    typ = _sh(A="lu", B="p", A0="plu", B0="plu")  # typical shape: high priority sets bounds, low priority a preference
    full = _sh(A="plu", B="plu", A0="plu", B0="plu")
    anyl = _sh(A0="plu", B0="plu")  # live proposals: every None pattern
    out = [
        I("reach:envelope-n2", "make_envelope", (2, (2, 1), True), "reachability twin", budget_s=60, validate_every=0),
        I("envelope-n1", "make_envelope", (1, (1,)), "1 live proposal", budget_s=120),
        I("envelope-n2", "make_envelope", (2, (2, 1)), "2 live proposals, distinct priorities, all None patterns", budget_s=400, validate_every=500),
        I("order-BA-typ", "make_history", (("B", "A"), typ, False, False), "arrival order B,A vs A,B; A bounds only, B preference only", budget_s=120),
        I("replace-A0AB-typ", "make_history", (("A0", "A", "B"), typ, False, False), "A replaced once (old one fully specified)", budget_s=120),
        I("replace-BB0-typ", "make_history", (("B0", "A", "B"), typ, False, False), "B replaced once", budget_s=120),
        I("expiry-two-groups", "make_two_groups", (typ,), "two component groups in one Matryoshka, the same actor in both, symbolic creation times and sweep time", budget_s=200),
        I("expiry-AB-typ", "make_history", (("A", "B"), typ, False, True), "symbolic creation times and loop time", budget_s=120),
        I("order-BA-eqprio-pp", "make_history", (("B", "A"), _sh(A="p", B="p"), True, False),
          "equal priorities, two preferences, source ids colliding in the bucket's hash table, arrival order B,A vs A,B", budget_s=120),
        I("order-BA-eqprio-typ", "make_history", (("B", "A"), _sh(A="plu", B="p"), True, False), "equal priorities, A full, B preference", budget_s=120),
    ]
    if tier == "quick":
        return out
    out.append(I("envelope-n2-eqprio", "make_envelope", (2, (1, 1)), "2 live proposals, equal priorities", budget_s=400, validate_every=500))
    out.append(I("order-BA", "make_history", (("B", "A"), anyl, False, False), "arrival order B,A; all None patterns", budget_s=600, validate_every=500))
    out.append(I("order-BA-eqprio", "make_history", (("B", "A"), anyl, True, False), "equal priorities, order B,A", budget_s=600, validate_every=500))
    for o in HIST_ORDERS[1:]:
        out.append(I("history-full-" + "".join(o), "make_history", (o, full, False, False), f"arrival order {o}; every proposal fully specified (budgeted)",
                     budget_s=400, validate_every=500, exhaustive=False))
    out.append(I("expiry-AB-full", "make_history", (("A", "B"), full, False, True), "expiry, proposals fully specified (budgeted)",
                 budget_s=600, exhaustive=False, validate_every=1000, dump_queries=30))
    out.append(I("expiry-BA0A-any", "make_history", (("B", "A0", "A"), anyl, False, True), "expiry + replacement, live proposals any None pattern (budgeted)",
                 budget_s=600, exhaustive=False, validate_every=1000))
    import itertools

    for perm in list(itertools.permutations(range(3)))[1:]:
        out.append(I("perm3-" + "".join(map(str, perm)), "make_perm3", (perm,), "3 live proposals (budgeted)", budget_s=200,
                     exhaustive=False, validate_every=2000))
    return out
