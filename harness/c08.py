"""C08 — resampled values use exactly the recent, non-future input samples."""
from __future__ import annotations

import asyncio
from datetime import timedelta
from fractions import Fraction

from harness.common import E, EI, TS, z3, core
from harness import fx, resamp
from harness.resamp import rs
from symx.runner import Instance

from frequenz.quantities import Quantity
from frequenz.sdk.timeseries._base_types import Sample

ID = "C08"
LEVEL = "model_checking"
install = resamp.install
FUNCTIONS = ["_ResamplingHelper.add_sample", "_ResamplingHelper.resample (bisect on both edges, islice)", "_ResamplingHelper._update_source_sample_period",
             "_ResamplingHelper._update_buffer_len", "_StreamingHelper._receive_samples (None/NaN filter)", "_StreamingHelper.resample", "ResamplerConfig.__post_init__"]
SHIMS = resamp.SHIMS + ["resampling_function = recorder returning a constant (public ResamplerConfig hook)", "source = async generator fed by the harness; sink = recorder"]
ASSUMPTIONS = [
    "resampling period 1 s; tick times T1 (symbolic, microseconds) and T2 = T1 + 1 s; sample timestamps symbolic microseconds, non-decreasing (time-ordered arrival)",
    "each sample is valid / None / NaN by a symbolic choice; how many samples arrive before the first tick is a symbolic choice",
    "oracle: the valid samples, in arrival order, restricted to the last `maxlen` appended (maxlen and the estimated input period are READ from the helper, "
    "the oracle only encodes the half-open interval (T - age*max(period, input period), T] with timedelta*float rounding)",
]
BOUNDS = {"quick": "<= 3 samples, max_data_age_in_periods in {1, 1.5, 2}, initial_buffer_len in {1, 2, 3}, two ticks",
          "thorough": "4 samples, ages {1, 1.5, 2, 3}, buffers {1, 2, 3, 4}"}
OUTSIDE = "longer histories; periods other than 1 s and 2 s (symbolic instances) and the concrete periods of the ieee-* instances; max_buffer_len/warn_buffer_len clamps"
BUDGET = {"quick": 600, "thorough": 1500}
KF_ZERO = "C08-input-period-rounds-to-zero"


def make(m, age, buflen, period_s=1, grid=None, reach=False, burst=None):
    """grid: None = every timestamp symbolic (microseconds); else the first sample's timestamp and the first tick are enumerated on a grid of
    `grid` microseconds (so the estimated input period and the resized buffer are concrete) while the other timestamps stay symbolic."""
    fr = Fraction(age)
    PER = timedelta(seconds=period_s)
    PUS = 1_000_000 * period_s

    def fn(ex):
        rec = []

        def recorder(samples, cfg, props):
            rec.append([s for s in samples])
            return 42.0
        cfg = rs.ResamplerConfig(resampling_period=PER, max_data_age_in_periods=age, resampling_function=recorder, initial_buffer_len=buflen)
        ts, kinds = [], []
        prev = 0
        for i in range(m):
            if grid and i == 0:
                t = grid * ex.choice("t0_grid", (4 * 1_000_000) // grid + 1)
            else:
                t = ex.int_(f"t{i}", 0, 10 * 1_000_000)
            ex.assume(EI(t) >= EI(prev))
            prev = t
            ts.append(t)
            kinds.append(0 if grid else ex.choice(f"kind{i}", 3))  # 0 valid, 1 None, 2 NaN (grid instances: all valid)
        n_before = ex.choice("n_before_tick1", m + 1)
        T1 = grid * ex.choice("T1_grid", (8 * 1_000_000) // grid + 1) if grid else ex.int_("T1", 0, 12 * 1_000_000)
        if burst:
            # a burst: every sample stamped within `burst` microseconds of the first tick
            for t in ts:
                ex.assume(z3.And(EI(t) >= EI(T1) - burst, EI(t) <= EI(T1) + burst))
        ticks = [T1, T1 + PUS]
        sunk = []
        state = {}

        async def scenario():
            q = asyncio.Queue()

            async def source():
                while True:
                    s = await q.get()
                    if s is None:
                        return
                    yield s

            async def sink(s):
                sunk.append(s)
            helper = rs._ResamplingHelper("x", cfg)
            sh = rs._StreamingHelper(helper, source(), sink)
            state["helper"] = helper
            ref_buf = []
            results = []

            def mk(i):
                v = [Quantity(float(i + 1)), None, Quantity(float("nan"))][kinds[i]]
                return Sample(TS + ts[i] * timedelta(microseconds=1), v)
            nxt = 0
            for tick_i, T in enumerate(ticks):
                upto = n_before if tick_i == 0 else m
                while nxt < upto:
                    await q.put(mk(nxt))
                    if kinds[nxt] == 0:
                        ref_buf.append(nxt)
                        del ref_buf[:-helper._buffer.maxlen]
                    nxt += 1
                await asyncio.sleep(0.01)
                n0 = len(rec)
                try:
                    await sh.resample(TS + T * timedelta(microseconds=1))
                    err = None
                except ZeroDivisionError as e:
                    err = e
                del ref_buf[:-helper._buffer.maxlen]
                results.append((T, list(ref_buf), rec[n0:] if len(rec) > n0 else None, sunk[-1] if err is None else None, err,
                                helper.source_properties.sampling_period, helper.source_properties.received_samples,
                                helper.source_properties.sampling_start))
                if err is not None:
                    break
            await q.put(None)
            await sh.stop()
            return results
        results = fx.run_loop(scenario())
        if reach:
            if any(r[2] for r in results):
                ex.check(False, "reach")
            return
        for tick_i, (T, kept, passed, out, err, sp, nrecv, start) in enumerate(results):
            if err is not None:
                # estimated input period (T - first timestamp) / received rounds to 0 us
                region = True if start is None else (2 * (EI(T) - (EI(start) - core.dt_us(TS))) <= nrecv)
                ex.check(False, f"tick {tick_i}: resample() raised ZeroDivisionError", known=(KF_ZERO, region))
                return
            P = z3.IntVal(PUS) if sp is None else core.zmax(EI(sp), z3.IntVal(PUS))
            lo = EI(T) - core.rhe_div(P * fr.numerator, z3.IntVal(fr.denominator))
            exp = [i for i in kept if ex.branch(z3.And(EI(ts[i]) > lo, EI(ts[i]) <= EI(T)))]
            got = None if passed is None else [int(s.value.base_value) - 1 for s in passed[0]]
            if passed is not None:
                ex.check(all(s.value is not None and not core._om.isnan(s.value.base_value) for s in passed[0]), "None/NaN sample passed to the resampling function")
                ex.check(len(passed) == 1, "resampling function called more than once for one tick")
            ex.check((got or []) == exp, f"tick {tick_i}: function received samples {got}, expected {exp} (buffer {kept})")
            ex.check((out.value is None) == (len(exp) == 0), f"tick {tick_i}: emitted value None-ness wrong")
            ex.check(EI(out.timestamp) == EI(T) + core.dt_us(TS), f"tick {tick_i}: emitted sample not stamped with the tick time")
    return fn


def make_ieee(period_us, age, nT):
    """Concrete present-day timeline (IEEE float arithmetic of the real code, which the real-arithmetic encoding of the other
    instances abstracts): tick T = 2024-05-17T13:07:11.300Z + kT * period for each of nT values of kT; one sample stamped on the lower
    window edge T - age*period shifted by -1/0/+1 us and one stamped on the upper edge T shifted by -1/0/+1 us.  Oracle in exact
    integer microseconds: (T - age*period, T]."""
    from datetime import datetime, timezone
    fr = Fraction(age)
    PER = timedelta(microseconds=period_us)
    BASE = datetime(2024, 5, 17, 13, 7, 11, 300000, tzinfo=timezone.utc)
    us = timedelta(microseconds=1)

    def fn(ex):
        rec = []

        def recorder(samples, cfg, props):
            rec.append([s for s in samples])
            return 42.0
        cfg = rs.ResamplerConfig(resampling_period=PER, max_data_age_in_periods=age, resampling_function=recorder, initial_buffer_len=8)
        kT = ex.choice("kT", nT)
        d_lo = ex.choice("d_lo", 3) - 1
        d_hi = ex.choice("d_hi", 3) - 1
        T = BASE + kT * PER
        num = period_us * fr.numerator
        q, r = divmod(num, fr.denominator)
        width = q + (1 if (2 * r > fr.denominator or (2 * r == fr.denominator and q % 2)) else 0)   # timedelta * float rounds half to even
        t_lo = T - width * us + d_lo * us
        t_hi = T + d_hi * us
        helper = rs._ResamplingHelper("x", cfg)
        helper.add_sample(Sample(t_lo, Quantity(1.0)))   # buffer (8) never full: the input period is not estimated, the window is age * period
        helper.add_sample(Sample(t_hi, Quantity(2.0)))
        out = helper.resample(T)
        exp = ([1.0] if d_lo > 0 else []) + ([2.0] if d_hi <= 0 else [])
        got = [s.value.base_value for s in rec[0]] if rec else []
        ex.observe("tick", str(T))
        ex.check(got == exp, f"function received samples {got}, expected {exp} (lower edge shift {d_lo} us, upper edge shift {d_hi} us)")
        ex.check(out.timestamp == T, "emitted sample not stamped with the tick time")
    return fn


def make_upsample(in_us, age, buflen, nticks):
    """Up-sampling histories on a concrete timeline: resampling period 1 s, input samples every in_us (> 1 s) starting at a phase
    enumerated in steps of 250 ms, nticks ticks; the relevance window grows when the input period is first estimated.  The oracle
    reads maxlen and the estimated input period from the helper and keeps its own copy of what was received."""
    fr = Fraction(age)
    PER = timedelta(seconds=1)
    us = timedelta(microseconds=1)

    def fn(ex):
        rec = []

        def recorder(samples, cfg, props):
            rec.append([s for s in samples])
            return 42.0
        cfg = rs.ResamplerConfig(resampling_period=PER, max_data_age_in_periods=age, resampling_function=recorder, initial_buffer_len=buflen)
        phase = 250_000 * ex.choice("phase", in_us // 250_000)
        helper = rs._ResamplingHelper("x", cfg)
        ref_buf, j = [], 0
        for k in range(nticks):
            T_us = 1_000_000 * (k + 1)
            while phase + j * in_us <= T_us:
                t = phase + j * in_us
                helper.add_sample(Sample(TS + t * us, Quantity(float(j))))
                ref_buf.append((t, float(j)))
                del ref_buf[:-helper._buffer.maxlen]
                j += 1
            n0 = len(rec)
            out = helper.resample(TS + T_us * us)
            del ref_buf[:-helper._buffer.maxlen]
            sp = helper.source_properties.sampling_period
            P = max(1_000_000, 0 if sp is None else sp // us)
            num = P * fr.numerator
            q, r = divmod(num, fr.denominator)
            width = q + (1 if (2 * r > fr.denominator or (2 * r == fr.denominator and q % 2)) else 0)
            exp = [v for t, v in ref_buf if T_us - width < t <= T_us]
            got = [s_.value.base_value for s_ in rec[n0]] if len(rec) > n0 else []
            ex.check(got == exp, f"tick {k + 1} s: function received samples {got}, expected {exp} (received so far {ref_buf}, input period {sp}, maxlen {helper._buffer.maxlen})")
            ex.check((out.value is None) == (not exp), f"tick {k + 1} s: emitted value None-ness wrong")
    return fn


def instances(tier):
    I = Instance
    out = [I("reach:m2", "make", (2, 1.0, 2, 1, None, True), "reachability twin", budget_s=100, validate_every=0)]
    # (samples, age, buffer, period_s, grid)
    if tier == "quick":
        cfgs = [
            (2, 1.0, 3, 1, None), (3, 1.0, 4, 1, None), (3, 1.5, 4, 1, None), (3, 2.0, 4, 1, None),   # buffer never full: pure window semantics
            (2, 3.0, 1, 1, None), (3, 2.0, 2, 2, None), (3, 2.0, 1, 2, None),                         # buffer overflows, period estimate not yet possible
            (3, 1.0, 2, 1, 1_000_000), (3, 2.0, 1, 1, 1_000_000),                                         # period estimate + buffer resize (first sample and tick on a 1 s grid, all samples valid)
        ]
    else:
        cfgs = [(m, a, m + 1, 1, None) for m in (3, 4) for a in (1.0, 1.5, 2.0, 3.0)]
        cfgs += [(3, 2.0, 2, 2, None), (3, 2.0, 1, 2, None), (4, 2.5, 2, 2, None), (4, 3.0, 3, 2, None)]
        cfgs += [(m, a, b, 1, 500_000) for m in (3, 4) for a in (1.0, 2.0) for b in (1, 2)]
    out.append(I("burst-m2-buf2", "make", (2, 1.0, 2, 1, None, False, 3), "2 samples within 3 us of the first tick, buffer 2 (period estimate from a burst)",
                 budget_s=200, validate_every=50, timeout_ms=30000))
    out.append(I("burst-m3-buf3", "make", (3, 1.0, 3, 1, None, False, 2), "3 samples within 2 us of the first tick, buffer 3", budget_s=300, validate_every=50, timeout_ms=30000))
    for pus, a in ([(100_000, 1.5), (300_000, 1.0), (1_500_000, 3.0)] if tier == "quick" else
                   [(100_000, 1.5), (300_000, 1.0), (1_500_000, 3.0), (100_000, 3.0), (700_000, 2.0), (70_000, 1.5), (1_100_000, 1.0), (200_000, 2.5)]):
        out.append(I(f"ieee-per{pus}us-age{a}", "make_ieee", (pus, a, 40 if tier == "quick" else 400),
                     f"concrete present-day timeline, period {pus} us, max_data_age_in_periods={a}: samples on both window edges +-1 us (IEEE arithmetic of the real code)",
                     budget_s=100, validate_every=0))
    ups = [(3_000_000, 3.0, 4, 12), (2_500_000, 2.0, 2, 10), (2_000_000, 3.0, 3, 10)]
    if tier != "quick":
        ups += [(3_500_000, 2.0, 3, 16), (1_500_000, 3.0, 4, 12), (5_000_000, 1.5, 2, 20), (2_250_000, 3.0, 5, 16)]
    for iu, a, b, nt in ups:
        out.append(I(f"upsample-in{iu}us-age{a}-buf{b}", "make_upsample", (iu, a, b, nt),
                     f"up-sampling history on a concrete timeline: input every {iu} us, resampling 1 s, {nt} ticks, max_data_age_in_periods={a}, initial_buffer_len={b}, every 250 ms phase",
                     budget_s=100, validate_every=0))
    for m, a, b, ps, g in cfgs:
        out.append(I(f"m{m}-age{a}-buf{b}-per{ps}" + (f"-grid{g}" if g else ""), "make", (m, a, b, ps, g),
                     f"{m} samples, max_data_age_in_periods={a}, initial_buffer_len={b}, period {ps} s"
                     + (f", first sample and first tick enumerated on a {g} us grid" if g else ", all timestamps symbolic"),
                     budget_s=300 if tier == "quick" else 600, validate_every=3, max_validate=400, timeout_ms=30000, exhaustive=(m <= 3)))
    return out
