"""Shared helpers for harnesses.  Importing this patches `math` BEFORE frequenz.sdk is imported."""
from __future__ import annotations

import logging
import sys

from symx import core

core.patch_math()
logging.disable(logging.CRITICAL)

import z3  # noqa: E402
from datetime import datetime, timezone  # noqa: E402

E = core.E
EI = core.EI
TS = datetime(2024, 1, 1, tzinfo=timezone.utc)


def tolz(*mags, rel="1/1000000"):
    """relative tolerance term: 1e-6 * max(1, |m| ...)"""
    m = z3.RealVal(1)
    for x in mags:
        m = core.zmax(m, core.zabs(x))
    return z3.RealVal(rel) * m


def approx_eq(a, b, tol):
    return z3.And(a - b <= tol, b - a <= tol)


def is_sym(x):
    return type(x) in (core.SymReal, core.SymInt, core.SymDT, core.SymTD)


import math as _m  # noqa: E402
from frequenz.client.microgrid import (  # noqa: E402
    BatteryComponentState, BatteryData, BatteryRelayState, InverterComponentState, InverterData)

_N3 = (_m.nan, _m.nan, _m.nan)


def battery_data(component_id, timestamp=TS, *, soc=_m.nan, soc_lower_bound=_m.nan, soc_upper_bound=_m.nan, capacity=_m.nan,
                 power_inclusion_lower_bound=_m.nan, power_exclusion_lower_bound=_m.nan, power_inclusion_upper_bound=_m.nan,
                 power_exclusion_upper_bound=_m.nan, temperature=_m.nan, relay_state=BatteryRelayState.UNSPECIFIED,
                 component_state=BatteryComponentState.UNSPECIFIED, errors=None):
    """BatteryData with NaN defaults (same defaults as the repo's tests/utils wrapper)."""
    return BatteryData(component_id=component_id, timestamp=timestamp, soc=soc, soc_lower_bound=soc_lower_bound,
                       soc_upper_bound=soc_upper_bound, capacity=capacity, power_inclusion_lower_bound=power_inclusion_lower_bound,
                       power_exclusion_lower_bound=power_exclusion_lower_bound, power_inclusion_upper_bound=power_inclusion_upper_bound,
                       power_exclusion_upper_bound=power_exclusion_upper_bound, temperature=temperature, relay_state=relay_state,
                       component_state=component_state, errors=errors or [])


def inverter_data(component_id, timestamp=TS, *, active_power=_m.nan, active_power_inclusion_lower_bound=_m.nan,
                  active_power_exclusion_lower_bound=_m.nan, active_power_inclusion_upper_bound=_m.nan,
                  active_power_exclusion_upper_bound=_m.nan, component_state=InverterComponentState.UNSPECIFIED, errors=None):
    return InverterData(component_id=component_id, timestamp=timestamp, active_power=active_power, active_power_per_phase=_N3,
                        reactive_power=_m.nan, reactive_power_per_phase=_N3, current_per_phase=_N3, voltage_per_phase=_N3,
                        active_power_inclusion_lower_bound=active_power_inclusion_lower_bound,
                        active_power_exclusion_lower_bound=active_power_exclusion_lower_bound,
                        active_power_inclusion_upper_bound=active_power_inclusion_upper_bound,
                        active_power_exclusion_upper_bound=active_power_exclusion_upper_bound, frequency=50.0,
                        component_state=component_state, errors=errors or [])
