"""Shared helpers for harnesses.  Importing this patches `math` BEFORE frequenz.sdk is imported."""
from __future__ import annotations

import logging
import sys

from symx import core

core.patch_math()
logging.disable(logging.CRITICAL)
if "/repo" not in sys.path:
    sys.path.append("/repo")  # tests.utils (component data wrappers), never imported from site-packages

import z3  # noqa: E402
from datetime import datetime, timezone  # noqa: E402

E = core.E
EI = core.EI
TS = datetime(2024, 1, 1, tzinfo=timezone.utc)


def tolz(*mags, rel="1/1000000"):
    """relative tolerance term: 1e-6 * max(1, |m| ...)"""
    m = z3.RealVal(1)
    for x in mags:
        m = core.zmax(m, core.zabs(x))
    return z3.RealVal(rel) * m


def approx_eq(a, b, tol):
    return z3.And(a - b <= tol, b - a <= tol)


def is_sym(x):
    return type(x) in (core.SymReal, core.SymInt, core.SymDT, core.SymTD)
