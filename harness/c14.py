"""C14 — power requests for a component group are applied one at a time, latest wins."""
from __future__ import annotations

import asyncio

from harness.common import z3, core
from harness import fx
from symx.runner import Instance

from frequenz.channels import Broadcast
from frequenz.quantities import Power
import frequenz.sdk.microgrid._power_distributing.power_distributing as pdm
from frequenz.sdk.microgrid._power_distributing.request import Request

ID = "C14"
LEVEL = "model_checking"
FUNCTIONS = ["PowerDistributingActor._run (routing)", "PowerDistributingActor._handle_task_completion", "PowerDistributingActor._process_request"]
SHIMS = ["actor built by its real constructor with the BatteryManager class replaced by a probe that logs enter/exit of distribute_power and blocks on a gate",
         "(a) inductive step: asyncio.create_task inside power_distributing is replaced by a recording fake, the done-callback is invoked the way asyncio invokes it",
         "(b) sequences: real asyncio tasks, real done-callbacks and a real frequenz.channels Broadcast on the async_solipsism virtual-time loop"]
ASSUMPTIONS = ["finite state: the symbolic variables are event kinds/groups/outcomes; the solver's role is the case split",
               "(a) pre-state is arbitrary subject to the invariant 'a pending request implies an in-flight task' (re-established by every step, checked)",
               "(b) events: request for group g; completion (success or exception) of g's in-flight distribution; completion immediately followed, in the same event-loop "
               "iteration, by a new request for g; after the sequence every in-flight distribution is completed (drain)"]
BOUNDS = {"quick": "(a) one step from every pre-state over 2 groups; (b) every sequence of <= 6 events over 2 groups (4 with equal-content requests / overlapping groups)", "thorough": "(b) 7 events; 5 with equal-content requests / overlapping groups"}
OUTSIDE = "more than 2 groups (disjoint, or overlapping {1,2}/{2,3}); the real component managers (C15); cancellation of the actor while requests are in flight"
BUDGET = {"quick": 300, "thorough": 900}
G = [frozenset({1}), frozenset({2})]


GO = [frozenset({1, 2}), frozenset({2, 3})]   # overlapping, different groups


def req(g, n, groups=None):
    return Request(power=Power.from_watts(float(n)), component_ids=set((groups or G)[g]))


class FakeTask:
    def __init__(self, coro, name=None):
        self.cbs, self._exc = [], None
        coro.close()

    def add_done_callback(self, cb):
        self.cbs.append(cb)

    def result(self):
        if self._exc:
            raise self._exc
        return None

    def done(self):
        return False


class FakeAsyncio:
    def __init__(self):
        self.created = []

    def __getattr__(self, n):
        return getattr(asyncio, n)

    def create_task(self, coro, name=None):
        t = FakeTask(coro, name)
        self.created.append(t)
        return t


class OneShotRx:
    def __init__(self, msgs):
        self.msgs = list(msgs)

    def __aiter__(self):
        return self

    async def __anext__(self):
        if not self.msgs:
            raise StopAsyncIteration
        return self.msgs.pop(0)


def new_actor(mgr):
    """The real constructor (so that every attribute it initialises exists), with the BatteryManager class replaced by the probe."""
    from datetime import timedelta
    from frequenz.client.microgrid import ComponentCategory
    real_mgr = pdm.BatteryManager
    pdm.BatteryManager = lambda *a, **k: mgr
    try:
        a = pdm.PowerDistributingActor(requests_receiver=OneShotRx([]), results_sender=None, component_pool_status_sender=None,
                                       api_power_request_timeout=timedelta(seconds=5), component_category=ComponentCategory.BATTERY, name="x")
    finally:
        pdm.BatteryManager = real_mgr
    return a


def make_step(reach=False):
    class Mgr:
        async def start(self):
            pass

        async def distribute_power(self, request):
            pass

    def fn(ex):
        fa = FakeAsyncio()
        real = pdm.asyncio
        pdm.asyncio = fa
        try:
            a = new_actor(Mgr())
            inflight = [ex.flag(f"inflight{g}") for g in range(2)]
            pending = [ex.flag(f"pending{g}") for g in range(2)]
            for g in range(2):
                ex.assume(not (pending[g] and not inflight[g]))
            tasks = {}
            for g in range(2):
                if inflight[g]:
                    a._process_request(G[g], req(g, 100 + g))
                    tasks[g] = fa.created[-1]
                if pending[g]:
                    a._pending_requests[G[g]] = req(g, 200 + g)
            started_before = len(fa.created)
            g = ex.choice("event_group", 2)
            o = 1 - g
            other_before = (a._processing_tasks.get(G[o]), a._pending_requests.get(G[o]))
            if ex.flag("event_is_request"):
                new = req(g, 300)
                a._requests_receiver = OneShotRx([new])
                try:
                    a._run().send(None)
                except StopIteration:
                    pass
                if reach:
                    ex.check(False, "reach")
                    return
                if inflight[g]:
                    ex.check(a._pending_requests.get(G[g]) is new and len(fa.created) == started_before,
                             "a request arriving while one is in flight must become THE pending request and must not start a distribution")
                else:
                    ex.check(len(fa.created) == started_before + 1 and G[g] in a._processing_tasks and G[g] not in a._pending_requests,
                             "a request for an idle group must start at once")
            else:
                ex.assume(inflight[g])
                t = tasks[g]
                if ex.flag("event_fails"):
                    t._exc = RuntimeError("distribution failed")
                for cb in t.cbs:
                    cb(t)
                if reach:
                    return
                if pending[g]:
                    ex.check(len(fa.created) == started_before + 1 and a._processing_tasks.get(G[g]) is fa.created[-1] and G[g] not in a._pending_requests,
                             "a completion (success or failure) with a pending request must start exactly that request")
                else:
                    ex.check(len(fa.created) == started_before and G[g] not in a._processing_tasks, "a completion without pending request must free the group")
            ex.check((a._processing_tasks.get(G[o]), a._pending_requests.get(G[o])) == other_before, "the other group was disturbed")
            for gg in range(2):
                ex.check(not (G[gg] in a._pending_requests and G[gg] not in a._processing_tasks), "invariant 'pending implies in flight' broken")
        finally:
            pdm.asyncio = real
    return fn


def make_seq(K, reach=False, dups=False, overlap=False):
    GR = GO if overlap else G

    def fn(ex):
        kinds_seen = {}
        number = {}       # id(request object) -> request number (requests may have EQUAL content when dups=True)
        keep = []
        log = []          # ("enter"|"exit", group, request number)
        ref_log = []
        gates = {}

        class Mgr:
            async def start(self):
                pass

            async def stop(self):
                pass

            async def distribute_power(self, request):
                n = number[id(request)]
                g = 0 if frozenset(request.component_ids) == GR[0] else 1
                log.append(("enter", g, n))
                ev, fail = gates.setdefault(n, [asyncio.Event(), False])
                await ev.wait()
                log.append(("exit", g, n))
                if gates[n][1]:
                    raise RuntimeError("distribution failed")

        async def scenario():
            chan = Broadcast[Request](name="requests")
            a = new_actor(Mgr())
            a._requests_receiver = chan.new_receiver()
            snd = chan.new_sender()
            runner = asyncio.create_task(a._run())
            await asyncio.sleep(0.1)
            ref = [{"inflight": None, "pending": None} for _ in range(2)]
            counter = [0]
            last_issued = [None, None]

            def mk(g, n):
                # dups: the new request may have exactly the content (power) of the request currently in flight for the group
                same = dups and ref[g]["inflight"] is not None and ref[g]["inflight"] != n and ex.flag(f"same_content_as_inflight{n}")
                r = req(g, power_of[ref[g]["inflight"]] if same else n, GR)
                power_of[n] = int(r.power.as_watts())
                number[id(r)] = n
                keep.append(r)
                return r
            power_of = {}

            def ref_request(g):
                counter[0] += 1
                n = counter[0]
                last_issued[g] = n
                gates[n] = [asyncio.Event(), False]
                if ref[g]["inflight"] is None:
                    ref[g]["inflight"] = n
                    ref_log.append(("enter", g, n))
                else:
                    ref[g]["pending"] = n
                return n

            def ref_complete(g):
                n = ref[g]["inflight"]
                ref_log.append(("exit", g, n))
                ref[g]["inflight"] = ref[g]["pending"]
                ref[g]["pending"] = None
                if ref[g]["inflight"] is not None:
                    ref_log.append(("enter", g, ref[g]["inflight"]))
                return n

            for k in range(K):
                kind = ex.choice(f"kind{k}", 3)   # 0 request, 1 completion, 2 completion immediately followed by a request
                kinds_seen[k] = kind
                g = ex.choice(f"group{k}", 2)
                if kind == 0:
                    n = ref_request(g)
                    await snd.send(mk(g, n))
                else:
                    ex.assume(ref[g]["inflight"] is not None)
                    fail = ex.flag(f"fails{k}")
                    n = ref[g]["inflight"]
                    gates[n][1] = fail
                    if kind == 1:
                        ref_complete(g)
                        gates[n][0].set()
                    else:
                        # the new request is sent in the same event-loop iteration in which the in-flight distribution finishes
                        ref_complete(g)
                        m = ref_request(g)
                        gates[n][0].set()
                        await snd.send(mk(g, m))
                await asyncio.sleep(0.1)
            # drain: complete everything that is still in flight (reference bookkeeping first, then simply open every gate)
            for _ in range(2 * K + 2):
                busy = [g for g in range(2) if ref[g]["inflight"] is not None]
                if not busy:
                    break
                for g in busy:
                    n = ref_complete(g)
                    gates[n][0].set()
                await asyncio.sleep(0.1)
            for gate in gates.values():
                gate[0].set()
            await asyncio.sleep(0.5)
            state = (dict(a._processing_tasks), dict(a._pending_requests))
            runner.cancel()
            await asyncio.gather(runner, return_exceptions=True)
            return last_issued, state
        last_issued, state = fx.run_loop(scenario())
        if reach:
            if len(log) >= 4:
                ex.check(False, "reach")
            return
        # A completion that is immediately followed by a request (kind 2) may legitimately be observed in either order by the
        # actor (the task needs one more loop iteration to finish), so exact equality with the reference is only demanded for
        # sequences without such an event; the property-level invariants are demanded always.
        racy = any(ex.values.get(f"kind{k}") == 2 for k in range(K)) if ex.concrete else any(kinds_seen.get(k) == 2 for k in range(K))
        for g in range(2):
            got = [e for e in log if e[1] == g]
            exp = [e for e in ref_log if e[1] == g]
            active = 0
            for e in got:
                active += 1 if e[0] == "enter" else -1
                ex.check(0 <= active <= 1, f"group {g}: two distributions in flight at the same time (or exit without enter): {got}")
            entered = [e[2] for e in got if e[0] == "enter"]
            ex.check(entered == sorted(set(entered)), f"group {g}: a request was applied twice or an older request was applied after a newer one: {entered}")
            ex.check(active == 0, f"group {g}: a distribution never finished although every gate was opened: {got}")
            if last_issued[g] is not None:
                ex.check(bool(entered) and entered[-1] == last_issued[g], f"group {g}: the last request issued ({last_issued[g]}) is not the last one applied ({entered})")
            if not racy and not overlap:   # overlapping groups: the property does not say whether they may delay each other
                ex.check(got == exp, f"group {g}: distributions {got} differ from the one-at-a-time / latest-wins reference {exp}")
        ex.check(not state[0] and not state[1], f"bookkeeping not empty after everything completed: {state}")
    return fn


def instances(tier):
    I = Instance
    out = [I("reach:seq3", "make_seq", (3, True), "reachability twin", budget_s=60, validate_every=0),
           I("step", "make_step", (), "one inductive step from every pre-state (2 groups)", budget_s=100, validate_every=5),
           I("seq-3", "make_seq", (3,), "every sequence of 3 events over 2 groups", budget_s=200, validate_every=50),
           I("seq-4", "make_seq", (4,), "every sequence of 4 events over 2 groups", budget_s=300, validate_every=200),
           I("seq-5", "make_seq", (5,), "every sequence of 5 events over 2 groups", budget_s=300, validate_every=1000),
           I("seq-4-dups", "make_seq", (4, False, True), "4 events; a request may have exactly the content of the request in flight for its group", budget_s=200, validate_every=200),
           I("seq-4-overlap", "make_seq", (4, False, False, True), "4 events over two overlapping but different groups {1,2} and {2,3}", budget_s=200, validate_every=200)]
    out.append(I("seq-6", "make_seq", (6,), "every sequence of 6 events over 2 groups", budget_s=600, validate_every=5000))
    if tier != "quick":
        out += [I("seq-5-dups", "make_seq", (5, False, True), "5 events; equal-content requests", budget_s=600, validate_every=2000),
                I("seq-5-overlap", "make_seq", (5, False, False, True), "5 events over two overlapping but different groups", budget_s=600, validate_every=2000),
                I("seq-7", "make_seq", (7,), "7 events (budgeted)", budget_s=900, validate_every=20000, exhaustive=False)]
    return out
