"""Shared builder/oracles for the battery distribution properties (C01, C02, C15 battery part, C17)."""
from __future__ import annotations

from harness.common import E, TS, z3, core, tolz, battery_data as BatteryDataWrapper, inverter_data as InverterDataWrapper

from frequenz.sdk.microgrid._power_distributing._distribution_algorithm import (
    AggregatedBatteryData, BatteryDistributionAlgorithm, InvBatPair)

zmax, zmin, zabs = core.zmax, core.zmin, core.zabs

FUNCTIONS = [
    "AggregatedBatteryData.__init__", "_aggregate_battery_power_bounds",
    "BatteryDistributionAlgorithm.distribute_power", "_distribute_consume_power", "_distribute_supply_power",
    "_inclusion_exclusion_bounds", "_compute_battery_availability_ratio", "_total_capacity", "_distribute_power",
    "_greedy_distribute_remaining_power", "_distribute_multi_inverter_pairs", "_internal._math.is_close_to_zero",
]
SHIMS = ["math.isclose/isnan dispatch on proxies (exact reals)", "logging disabled",
         "component data are real frequenz.client.microgrid BatteryData/InverterData objects"]


class Group:
    pass


def build(ex, shape, sym_soc=True, wide_battery=False, soc_pattern=None, oneway=None, concrete=None):
    """shape: tuple of (n_batteries, n_inverters) per group.  Returns (pairs, groups) with symbolic data and the
    documented consistency assumptions.  soc_pattern: concrete SoC per group (see below).  wide_battery: the batteries' own capacity, SoC limits and power bounds are concrete
    and non-binding (capacity 1, limits 0..100, bounds +-1e9, no exclusion zone); only their SoC and the inverter data stay symbolic."""
    A = ex.assume
    oneway = oneway or {}   # {group: +1 | -1}: a charge-only (+1) / discharge-only (-1) group without exclusion zone (concrete zeros)
    ow = lambda g: ({"il": 0.0, "el": 0.0, "eu": 0.0} if oneway[g] > 0 else {"el": 0.0, "eu": 0.0, "iu": 0.0}) if g in oneway else {}  # noqa: E731
    pairs, groups = [], []
    for g, (nb, ni) in enumerate(shape):
        G = Group()
        G.bats, G.invs = [], []
        bats, invs = [], []
        for b in range(nb):
            v = {k: ex.real(f"g{g}b{b}_{k}") for k in ("cap", "soc", "slo", "shi", "il", "el", "eu", "iu")}
            if wide_battery:
                v.update(cap=1.0, slo=0.0, shi=100.0, il=-1e9, el=0.0, eu=0.0, iu=1e9)
            if soc_pattern is not None:
                # concrete SoC data (capacity 1, limits 0..100, SoC from the pattern): the availability ratios become concrete, so
                # every share is linear in the symbolic request and bounds (QF_LRA instead of QF_NRA)
                v.update(cap=1.0, slo=0.0, shi=100.0, soc=float(soc_pattern[g][b] if isinstance(soc_pattern[g], (tuple, list)) else soc_pattern[g]))
            v.update(ow(g))
            if concrete is not None:   # fully concrete data (IEEE runs): concrete[g] = (battery dict, inverter dict)
                v = dict(concrete[g][0])
            A(E(v["cap"]) > 0)
            A(z3.And(E(v["slo"]) >= 0, E(v["slo"]) <= E(v["shi"]), E(v["shi"]) <= 100))
            A(z3.And(E(v["soc"]) >= 0, E(v["soc"]) <= 100))
            A(z3.And(E(v["il"]) <= E(v["el"]), E(v["el"]) <= 0, 0 <= E(v["eu"]), E(v["eu"]) <= E(v["iu"])))
            G.bats.append(v)
            bats.append(BatteryDataWrapper(
                component_id=100 * g + b, timestamp=TS, capacity=v["cap"], soc=v["soc"], soc_lower_bound=v["slo"], soc_upper_bound=v["shi"],
                power_inclusion_lower_bound=v["il"], power_exclusion_lower_bound=v["el"],
                power_exclusion_upper_bound=v["eu"], power_inclusion_upper_bound=v["iu"]))
        for i in range(ni):
            w = {k: ex.real(f"g{g}i{i}_{k}") for k in ("il", "el", "eu", "iu")}
            w.update(ow(g))
            if concrete is not None:
                w = dict(concrete[g][1])
            A(z3.And(E(w["il"]) <= E(w["el"]), E(w["el"]) <= 0, 0 <= E(w["eu"]), E(w["eu"]) <= E(w["iu"])))
            G.invs.append(w)
            invs.append(InverterDataWrapper(
                component_id=100 * g + 50 + i, timestamp=TS,
                active_power_inclusion_lower_bound=w["il"], active_power_exclusion_lower_bound=w["el"],
                active_power_exclusion_upper_bound=w["eu"], active_power_inclusion_upper_bound=w["iu"]))
        G.inv_ids = [100 * g + 50 + i for i in range(ni)]
        G.bat_ids = [100 * g + b for b in range(nb)]
        G.bat_objs, G.inv_objs = bats, invs
        groups.append(G)
        pairs.append(InvBatPair(AggregatedBatteryData(bats), invs))
    return pairs, groups


def directional(G, sign):
    """Declarative per-group quantities (z3 terms) in the direction of the request (sign=+1 consume, -1 supply):
    battery aggregated excl/incl, per-inverter excl/incl, advertised excl/incl, min power, group incl bound."""
    nb = len(G.bats)
    if sign > 0:
        b_excl = zmax(*[E(v["eu"]) for v in G.bats]) * nb
        b_incl = sum(E(v["iu"]) for v in G.bats)
        i_excl = [E(w["eu"]) for w in G.invs]
        i_incl_raw = [E(w["iu"]) for w in G.invs]
    else:
        b_excl = -(zmin(*[E(v["el"]) for v in G.bats]) * nb)
        b_incl = -sum(E(v["il"]) for v in G.bats)
        i_excl = [-E(w["el"]) for w in G.invs]
        i_incl_raw = [-E(w["il"]) for w in G.invs]
    i_incl = [zmin(x, b_incl) for x in i_incl_raw]  # per-inverter inclusion clipped by the battery's
    d = Group()
    d.b_excl, d.b_incl, d.i_excl, d.i_incl, d.i_incl_raw = b_excl, b_incl, i_excl, i_incl, i_incl_raw
    d.adv_excl = zmax(b_excl, sum(i_excl))
    d.adv_incl = zmin(b_incl, sum(i_incl_raw))
    d.min_power = zmax(b_excl, zmin(*i_excl))
    d.incl_bound = zmin(sum(i_incl), b_incl)
    return d


def soc_headroom(G, sign):
    """(aggregated soc, limit) z3 terms; headroom in the direction of the request is 0 iff soc >= shi (consume) / soc <= slo (supply)."""
    cap = sum(E(v["cap"]) for v in G.bats)
    soc = sum(E(v["soc"]) * E(v["cap"]) for v in G.bats) / cap
    if sign > 0:
        lim = sum(E(v["shi"]) * E(v["cap"]) for v in G.bats) / cap
        return soc >= lim
    lim = sum(E(v["slo"]) * E(v["cap"]) for v in G.bats) / cap
    return soc <= lim


def request(ex, groups, sign, allow_above_incl=True, value=None):
    """Symbolic request P admitted by the advertised bounds (|P| >= advertised exclusion bound), P != 0."""
    P = ex.real("P") if value is None else value
    dirs = [directional(G, sign) for G in groups]
    mag = E(P) * sign
    ex.assume(mag > 0)
    ex.assume(mag >= sum(d.adv_excl for d in dirs))
    for d in dirs:
        ex.assume(d.min_power <= d.incl_bound)
    if not allow_above_incl:
        ex.assume(mag <= sum(d.adv_incl for d in dirs))
    return P, dirs
