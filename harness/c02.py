"""C02 — no inverter or battery group is commanded outside its power bounds."""
from __future__ import annotations

from harness.common import E, z3, core, tolz
from harness import dist
from harness.dist import BatteryDistributionAlgorithm
from symx.runner import Instance

ID = "C02"
LEVEL = "model_checking"
FUNCTIONS = dist.FUNCTIONS
SHIMS = dist.SHIMS
ASSUMPTIONS = [
    "floats are modelled as exact reals; tolerance 1e-6*max(1,|P|) on every bound comparison",
    "same data domain as C01 (consistent bounds, capacity > 0, group min power <= group inclusion bound)",
    "request non-zero, |P| >= advertised exclusion bound; boundary requests (exactly the advertised exclusion / inclusion bound) are "
    "points of the symbolic range and additionally get a dedicated instance each",
]
BOUNDS = {
    "quick": "shapes 1x1x1, 1x1x2, 1x2x1 both directions, 2x(1x1) consume; exponent 1 (exponents 0 and 2 for 1 group); boundary instances on 2x(1x1); 3 groups with concrete SoC data (linear, budgeted 120 s)",
    "thorough": "quick + supply for 2 groups, exponents 0/2, mixed shapes and 3 groups budgeted",
}
OUTSIDE = "more groups/batteries/inverters than listed; non-integer exponents; IEEE rounding"
BUDGET = {"quick": 900, "thorough": 1800}


KF_SPLIT = "C02-multi-inverter-greedy-split"
IEEE_SOC = [13.7, 52.3, 71.9, 33.1]
IEEE_CAP = [7300.0, 11900.0, 5100.0, 10000.0]
_installed = False


def install():
    """Observation wrapper (harness side, /repo untouched): records, per inverter set, the power the set was given
    minus what `_distribute_multi_inverter_pairs` managed to place on its inverters."""
    global _installed
    if _installed:
        return
    _installed = True
    orig = BatteryDistributionAlgorithm._distribute_multi_inverter_pairs

    def wrapper(self, distribution, excl_bounds, incl_bounds):
        intended = {frozenset(ids): power.power for ids, power in distribution.items()}
        out = orig(self, distribution, excl_bounds, incl_bounds)
        newd = out[0] if isinstance(out, tuple) else out
        self._verif_dropped = {ids: p - sum(newd[i] for i in ids) for ids, p in intended.items()}
        return out

    BatteryDistributionAlgorithm._distribute_multi_inverter_pairs = wrapper


def make(shape, exponent, sign, boundary=None, reach=False, wide_battery=False, soc_pattern=None, oneway=None, ieee=False):
    """ieee: fully concrete non-round data enumerated on a small grid (see IEEE_*), high distributor exponents: the run is IEEE arithmetic of the real code."""
    shape = tuple(tuple(s) for s in shape)

    def fn(ex):
        if ieee:
            conc = []
            for g in range(len(shape)):
                full = (g == len(shape) - 1)   # the last group has no SoC headroom in the direction of the request
                soc = (90.0 if sign > 0 else 10.0) if full else IEEE_SOC[ex.choice(f"soc{g}", len(IEEE_SOC))]
                bnd = dict(il=-1000.0, el=-100.0, eu=100.0, iu=1000.0)
                conc.append((dict(cap=IEEE_CAP[g % len(IEEE_CAP)], soc=soc, slo=10.0, shi=90.0, **bnd), bnd))
            pairs, groups = dist.build(ex, shape, concrete=conc)
            n = len(shape)
            pv = [100.0 * n, 1000.0 * (n - 1), 100.0 * n + 37.3, 512.9][ex.choice("request", 4)] * sign
            P, dirs = dist.request(ex, groups, sign, value=pv)
        else:
            pairs, groups = dist.build(ex, shape, wide_battery=wide_battery, soc_pattern=soc_pattern, oneway=oneway)
            P, dirs = dist.request(ex, groups, sign)
        mag = E(P) * sign
        if boundary == "excl":
            ex.assume(mag == sum(d.adv_excl for d in dirs))
        elif boundary == "incl":
            ex.assume(mag == sum(d.adv_incl for d in dirs))
        alg = BatteryDistributionAlgorithm(exponent)
        try:
            res = alg.distribute_power(P, pairs)
        except ValueError:
            return
        if reach:
            ex.check(False, "reach")
            return
        tol = tolz(E(P))
        dropped = getattr(alg, "_verif_dropped", {})
        ex.observe("distribution", dict(res.distribution))
        for G, d in zip(groups, dirs):
            tot = z3.RealVal(0)
            for k, iid in enumerate(G.inv_ids):
                s = E(res.distribution[iid]) * sign
                tot = tot + s
                ex.check(z3.Or(s == 0, z3.And(s >= d.i_excl[k] - tol, s <= d.i_incl[k] + tol)),
                         f"inverter {iid} set-point outside its inclusion bounds or inside its exclusion zone")
            drop = E(dropped.get(frozenset(G.inv_ids), 0.0))
            known = (KF_SPLIT, drop > 0) if len(G.inv_ids) > 1 else None   # any unplaced rest (the given-power check below bounds what is masked)
            ex.check(z3.Or(tot == 0, z3.And(tot >= d.b_excl - tol, tot <= d.b_incl + tol)),
                     f"group {G.bat_ids} total outside the battery inclusion bounds or inside its exclusion zone", known=known)
            if known is not None:
                # inside the known region the power *given to the set* must still respect the battery bounds
                full = tot + drop
                ex.check(z3.Or(full == 0, z3.And(full >= d.b_excl - tol, full <= d.b_incl + tol)),
                         f"group {G.bat_ids}: power given to the inverter set violates the battery bounds")
            ex.check(z3.Implies(dist.soc_headroom(G, sign), tot == 0),
                     f"group {G.bat_ids} has no SoC headroom in the requested direction but is assigned power")
    return fn


def instances(tier):
    I = Instance
    kw = dict(incremental=False, validate_every=40, timeout_ms=30000)
    s11, s12, s21, g2 = ((1, 1),), ((1, 2),), ((2, 1),), ((1, 1), (1, 1))
    out = [
        I("reach:1x1x1", "make", (s11, 1.0, 1, None, True), "reachability twin", budget_s=60, incremental=False, validate_every=0),
        I("1x1x1+", "make", (s11, 1.0, 1), "1 group, 1 battery, 1 inverter, consume", budget_s=120, **kw),
        I("1x1x1-", "make", (s11, 1.0, -1), "same, supply", budget_s=120, **kw),
        I("1x1x1+e0", "make", (s11, 0.0, 1), "same, distributor exponent 0", budget_s=120, **kw),
        I("1x1x1-e0", "make", (s11, 0.0, -1), "same, supply, distributor exponent 0", budget_s=120, **kw),
        I("1x1x1+e2", "make", (s11, 2.0, 1), "same, distributor exponent 2", budget_s=120, **kw),
        I("1x2x1+e0", "make", (s21, 0.0, 1), "2 batteries behind 1 inverter, exponent 0", budget_s=200, **kw),
        I("1x1x2+", "make", (s12, 1.0, 1), "1 battery behind 2 inverters, consume", budget_s=200, **kw),
        I("1x1x2-", "make", (s12, 1.0, -1), "1 battery behind 2 inverters, supply", budget_s=200, **kw),
        I("1x2x1+", "make", (s21, 1.0, 1), "2 batteries behind 1 inverter, consume", budget_s=200, **kw),
        I("3x(1x1)+soc", "make", (((1, 1),) * 3, 1.0, 1, None, False, False, (79.0, 50.0, 70.0)), "3 groups; SoC data concrete (headroom 21/50/30 %, capacity 1), so every share is "
          "linear in the symbolic request and bounds (QF_LRA); all power bounds and the request symbolic (budgeted)", budget_s=90, exhaustive=False,
          incremental=True, validate_every=200, timeout_ms=30000, decision_limit=120),
        I("3x(1x1)+soc-oneway", "make", (((1, 1),) * 3, 1.0, 1, None, False, False, (20.0, 85.0, 85.0), {2: 1}), "3 groups with concrete SoC data (headroom 80/15/15 %), the third a "
          "charge-only group without exclusion zone (inclusion lower bounds and exclusion bounds concrete 0); the other bounds and the request symbolic (budgeted)",
          budget_s=90, exhaustive=False, incremental=True, validate_every=200, timeout_ms=30000, decision_limit=120),
        I("ieee-4x(1x1)+e5", "make", (((1, 1),) * 4, 5.0, 1, None, False, False, None, None, True), "concrete non-round data (4 SoC values per group, 4 requests), distributor exponent 5, "
          "the last group without SoC headroom: IEEE arithmetic of the real code", budget_s=60, validate_every=0),
        I("ieee-4x(1x1)-e6", "make", (((1, 1),) * 4, 6.0, -1, None, False, False, None, None, True), "same, supply, exponent 6", budget_s=60, validate_every=0),
        I("2x(1x1)+", "make", (g2, 1.0, 1), "2 groups of 1 battery + 1 inverter, consume", budget_s=600, **kw),
        I("2x(1x1)+@excl", "make", (g2, 1.0, 1, "excl"), "request exactly the advertised exclusion bound", budget_s=300, **kw),
        I("2x(1x1)+@incl", "make", (g2, 1.0, 1, "incl"), "request exactly the advertised inclusion bound", budget_s=300, **kw),
    ]
    if tier == "quick":
        return out
    kw["dump_queries"] = 10
    out += [
        I("3x(1x1)+wide@excl", "make", (((1, 1),) * 3, 1.0, 1, "excl", False, True), "3 groups, request exactly the advertised exclusion bound; batteries' own limits concrete "
          "and non-binding, SoC and inverter bounds symbolic (budgeted)", budget_s=200, exhaustive=False, **kw),
        I("3x(1x1)+wide", "make", (((1, 1),) * 3, 1.0, 1, None, False, True), "3 groups, any admitted request; same restriction (budgeted)", budget_s=200, exhaustive=False, **kw),
    ] + [
        I("1x2x1-", "make", (s21, 1.0, -1), "2 batteries behind 1 inverter, supply", budget_s=200, **kw),
        I("2x(1x1)-", "make", (g2, 1.0, -1), "2 groups, supply", budget_s=400, **kw),
        I("2x(1x1)+e0", "make", (g2, 0.0, 1), "2 groups, exponent 0", budget_s=300, **kw),
        I("2x(1x1)+e2", "make", (g2, 2.0, 1), "2 groups, exponent 2", budget_s=250, exhaustive=False, **kw),
        I("(1x1|1x2)+", "make", (((1, 1), (1, 2)), 1.0, 1), "mixed shapes (budgeted)", budget_s=200, exhaustive=False, **kw),
        I("(2x1|1x1)+", "make", (((2, 1), (1, 1)), 1.0, 1), "mixed shapes (budgeted)", budget_s=200, exhaustive=False, **kw),
        I("3x(1x1)+", "make", (((1, 1), (1, 1), (1, 1)), 1.0, 1), "3 groups (budgeted)", budget_s=250, exhaustive=False, **kw),
    ]
    return out
