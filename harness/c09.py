"""C09 — ring buffer / moving window behaves as a sliding time-indexed map."""
from __future__ import annotations

import math
from datetime import timedelta

from harness.common import E, EI, z3, core
from symx.runner import Instance

import frequenz.sdk.timeseries._ringbuffer.buffer as rb
from frequenz.quantities import Quantity
from frequenz.sdk.timeseries._base_types import Sample

ID = "C09"
LEVEL = "model_checking"
FUNCTIONS = ["OrderedRingBuffer.update", "normalize_timestamp", "to_internal_index/wrap", "_update_gaps/_cleanup_gaps/_remove_gap", "Gap.contains", "is_missing",
             "count_valid", "count_covered/_covered_time_range", "oldest_timestamp/newest_timestamp", "window (datetime and index queries)", "_to_covered_indices/get_timestamp",
             "_wrapped_buffer_window", "_fill_gaps", "MovingWindow.at/__getitem__ (object built without its background task)"]
SHIMS = ["buffer.round / buffer.int map proxy reals to proxy ints (round-half-even / truncation)", "list indexing/slicing with a proxy int realises the index by forking",
         "math.isnan dispatch on proxies"]
ASSUMPTIONS = [
    "list container (numpy container in the *-numpy instances), sampling period 1 s (and 200 ms / 300 ms / 70 ms / 333333 us instances), align_to = UNIX epoch; update timestamps are symbolic microseconds anywhere in [0, span] (on and off the slot grid, any order); "
    "each update is valid or missing by a symbolic flag; values are distinct concrete floats (the property is about WHICH slot a value lands in)",
    "reference: executable map slot -> value with slot = round_half_even(t / period), window = [newest - capacity + 1, newest]",
    "datetime queries: start/end symbolic microseconds (unaligned, inverted, outside the window, closer than one period); index queries: each index None or in [-3, 3]",
]
BOUNDS = {"quick": "capacity 1 and 2 with 2 updates: consistency after every update, + one datetime query, + one index query, + MovingWindow.at (all exhaustive; timestamps anywhere in a 3-5 s span at us resolution); "
                   "deeper histories with update timestamps enumerated on the slot grid: capacity 4 with 4 updates (state), capacity 3 with 3 updates + symbolic datetime query",
          "thorough": "capacity 3 with 3 updates: consistency (exhaustive), + queries (budgeted); capacity 3 with 4 updates (budgeted); capacity 1 with 3 updates"}
OUTSIDE = "numpy container beyond the *-numpy instances; serialization; MovingWindow's resampler wiring; sampling periods other than 1 s, 200 ms, 300 ms, 70 ms; alignment points other than the epoch"
BUDGET = {"quick": 900, "thorough": 2400}
PERIOD = timedelta(seconds=1)
PUS = 1_000_000
FILL = -7.0
_inst = False


def install():
    global _inst
    if not _inst:
        rb.round = core.sym_round
        rb.int = core.sym_int
        _inst = True


def set_period(period_us):
    global PERIOD, PUS
    PUS = period_us
    PERIOD = timedelta(microseconds=period_us)


def slot_of(us):
    """round-half-even(us / PUS) as proxy/int"""
    if type(us) is int:
        q, r = divmod(us, PUS)
        return q + (1 if (2 * r > PUS or (2 * r == PUS and q % 2)) else 0)
    return core.SymInt(core.rhe_div(EI(us), z3.IntVal(PUS)))


def apply_updates(ex, cap, k, span, check_each, grid=False, numpy=False):
    """grid=True: update timestamps are enumerated on the slot grid (concrete), which makes deeper histories affordable;
    queries stay symbolic."""
    if numpy:
        import numpy as np
        buf = rb.OrderedRingBuffer(np.zeros(cap, dtype=float), PERIOD, core.EPOCH)
    else:
        buf = rb.OrderedRingBuffer([0.0] * cap, PERIOD, core.EPOCH)
    model = {}
    newest = None
    for i in range(k):
        us = ex.choice(f"slot{i}", span + 1) * PUS if grid else ex.int_(f"t{i}", 0, span * PUS)
        ts = core.EPOCH + us * timedelta(microseconds=1)
        slot = slot_of(us)
        missing = ex.flag(f"missing{i}")
        val = None if missing else Quantity(float(i + 1))
        too_old = newest is not None and bool(slot < newest - (cap - 1))
        try:
            buf.update(Sample(ts, val))
            accepted = True
        except IndexError:
            accepted = False
        ex.check(accepted != too_old, f"update {i}: accepted={accepted} but the reference says too_old={too_old}")
        if not accepted:
            continue
        if newest is None or bool(slot > newest):
            newest = slot
        model[slot] = None if missing else float(i + 1)
        if check_each:
            check_state(ex, buf, cap, model, newest, f"after update {i}")
    return buf, model, newest


def ref_value(model, newest, cap, q):
    """reference value of slot q: float, or None if missing / outside the window / never written"""
    if bool(q < newest - (cap - 1)) or bool(q > newest):
        return None
    v = None
    for s, val in model.items():  # later writes to an equal slot overwrite (dict with constant hash, equality decided by the solver)
        if s == q:
            v = val
    return v


def window_ref(model, newest, cap):
    return [ref_value(model, newest, cap, newest - (cap - 1) + j) for j in range(cap)]


def check_state(ex, buf, cap, model, newest, where):
    exp = window_ref(model, newest, cap)
    nvalid = sum(1 for v in exp if v is not None)
    ex.check(bool(buf.count_valid() == nvalid), f"{where}: count_valid != number of valid slots in the window")
    ex.check(EI(buf.time_bound_newest) == EI(newest) * PUS + core.dt_us(core.EPOCH), f"{where}: time_bound_newest is not the newest slot")
    # gaps, as a set of slots inside the window, must be exactly the slots without a valid value
    for j in range(cap):
        q = newest - (cap - 1) + j
        ts = core.EPOCH + q * PERIOD
        ex.check(bool(buf.is_missing(ts)) == (exp[j] is None), f"{where}: gap list disagrees with the content of a window slot")
    if nvalid == 0:
        ex.check(buf.oldest_timestamp is None and buf.newest_timestamp is None, f"{where}: oldest/newest timestamp of an empty buffer")
        ex.check(bool(buf.count_covered() == 0), f"{where}: count_covered of an empty buffer")
        return exp
    first = next(j for j, v in enumerate(exp) if v is not None)
    ex.check(EI(buf.oldest_timestamp) == (EI(newest) - (cap - 1) + first) * PUS, f"{where}: oldest_timestamp is not the oldest valid slot")
    ex.check(EI(buf.newest_timestamp) == EI(newest) * PUS, f"{where}: newest_timestamp is not the newest slot")
    ex.check(bool(buf.count_covered() == cap - first), f"{where}: count_covered != slots from oldest valid to newest")
    return exp


def same(got, exp):
    return len(got) == len(exp) and all((a == b) or (isinstance(a, float) and isinstance(b, float) and math.isnan(a) and math.isnan(b)) for a, b in zip(got, exp))


def make(cap, k, span, mode, reach=False, grid=False, period_us=1_000_000, halfgrid=False, numpy=False):
    """halfgrid: datetime query bounds are enumerated on the half-slot grid (concrete datetimes exactly between two slots and on slots:
    together with grid=True the whole path runs the code's float arithmetic in IEEE).
    mode: 'state' (consistency after every update), 'dtq' (+ one datetime window query), 'idxq' (+ one index window query);
    span is in sampling periods."""
    def fn(ex):
        set_period(period_us)
        buf, model, newest = apply_updates(ex, cap, k, span, check_each=(mode == "state"), grid=grid, numpy=numpy)
        if newest is None:
            return
        if reach:
            ex.check(False, "reach")
            return
        # the state assertions are the subject of the 'state' instances; query instances only need the reference content
        exp = check_state(ex, buf, cap, model, newest, "final") if mode == "state" else window_ref(model, newest, cap)
        valid_idx = [j for j, v in enumerate(exp) if v is not None]
        if mode == "state":
            full = list(buf.window(buf.time_bound_oldest, buf.time_bound_newest + PERIOD, fill_value=FILL)) if valid_idx else []
            expw = [FILL if v is None else v for v in exp[valid_idx[0]:]] if valid_idx else []
            ex.check(same(full, expw), f"full window {full} != reference {expw}")
            return
        if not valid_idx:
            ex.check(len(buf.window(None, None, fill_value=FILL)) == 0, "window of an empty buffer is not empty")
            return
        covered = exp[valid_idx[0]:]
        if mode == "idxq":
            def pick(name):
                if ex.flag(name + "_none"):
                    return None
                return ex.choice(name, 7) - 3
            i0, i1 = pick("i0"), pick("i1")
            expq = [FILL if v is None else v for v in covered[slice(i0, i1)]]
            got = list(buf.window(i0, i1, fill_value=FILL))
            ex.check(same(got, expq), f"window({i0}, {i1}) = {got}, reference slice of the covered range = {expq}")
            return
        # datetime query
        if halfgrid:
            qs = (ex.choice("qs_half", 2 * (span + 5)) - 4) * (PUS // 2)
            qe = (ex.choice("qe_half", 2 * (span + 5)) - 4) * (PUS // 2)
        else:
            qs = ex.int_("qs", -2 * PUS, (span + 3) * PUS)
            qe = ex.int_("qe", -2 * PUS, (span + 3) * PUS)
        us = timedelta(microseconds=1)
        w = list(buf.window(core.EPOCH + qs * us, core.EPOCH + qe * us, fill_value=FILL))
        n = len(w)
        ex.observe("window", w)
        spanned = (EI(qe) - EI(qs) + PUS - 1) / PUS + 1  # slots touched by [qs, qe) incl. an unaligned straddle
        ex.check(z3.Or(z3.And(EI(qe) <= EI(qs), n == 0), z3.And(EI(qe) > EI(qs), z3.IntVal(n) <= spanned)),
                 f"window returned {n} slots: more than the query spans (or non-empty for an inverted query)")
        # completeness: the window holds every covered slot between the query bounds rounded onto the slot grid
        # (slots slot(start) .. slot(end) - 1, clamped to [oldest valid, newest]); an inverted or sub-slot query is empty
        lo_slot = newest - (cap - 1) + valid_idx[0]
        a = slot_of(qs)
        b = slot_of(qe)
        a = a if ex.branch(EI(a) >= EI(lo_slot)) else lo_slot
        b = b if ex.branch(EI(b) <= EI(newest) + 1) else newest + 1
        exp_n = (b - a) if (ex.branch(EI(qe) > EI(qs)) and ex.branch(EI(b) > EI(a))) else 0
        ex.check(EI(exp_n) == n, f"window returned {n} slots, not the number of covered slots between the rounded query bounds")
        if n:
            # element j is the reference content of slot s0 + j, where s0 = slot of max(start, oldest valid)
            oldest_us = (EI(newest) - (cap - 1) + valid_idx[0]) * PUS
            s0 = slot_of(qs) if ex.branch(EI(qs) >= oldest_us) else (newest - (cap - 1) + valid_idx[0])
            for j in range(n):
                r = ref_value(model, newest, cap, s0 + j)
                e = FILL if r is None else r
                ex.check(bool(w[j] == e), f"window element {j} is {w[j]}, reference slot content is {e}")
    return fn


def make_at(cap, k, span, reach=False, period_us=1_000_000):
    """MovingWindow.at / __getitem__ with an index or a datetime key, on top of the same symbolic update history."""
    from frequenz.sdk.timeseries._moving_window import MovingWindow

    def fn(ex):
        set_period(period_us)
        buf, model, newest = apply_updates(ex, cap, k, span, check_each=False)
        if newest is None:
            return
        mw = MovingWindow.__new__(MovingWindow)
        mw._buffer = buf
        mw._tasks = set()
        exp = window_ref(model, newest, cap)
        valid_idx = [j for j, v in enumerate(exp) if v is not None]
        covered = exp[valid_idx[0]:] if valid_idx else []
        if reach:
            if covered:
                ex.check(False, "reach")
            return
        by_index = ex.flag("key_is_index")
        if by_index:
            i = ex.choice("index", 2 * (cap + 2) + 1) - (cap + 2)
            try:
                got = mw[i]
                raised = False
            except IndexError:
                raised = True
            in_range = -len(covered) <= i < len(covered)
            ex.check(raised == (not in_range), f"at({i}) with {len(covered)} covered slots: IndexError={raised}, expected {not in_range}")
            if in_range and not raised:
                e = covered[i]
                ex.check((got == e) if e is not None else math.isnan(got), f"at({i}) = {got}, reference content {e}")
        else:
            q = ex.int_("key_us", -2 * PUS, (span + 3) * PUS)
            key = core.EPOCH + q * timedelta(microseconds=1)
            try:
                got = mw[key]
                raised = False
            except IndexError:
                raised = True
            if not covered:
                ex.check(raised, "at(datetime) on an empty window must raise IndexError")
                return
            oldest_us = (EI(newest) - (cap - 1) + valid_idx[0]) * PUS
            newest_us = EI(newest) * PUS
            inside = ex.branch(z3.And(EI(q) >= oldest_us, EI(q) <= newest_us))
            ex.check(raised == (not inside), f"at(datetime): IndexError={raised} although the key is {'inside' if inside else 'outside'} [oldest, newest]")
            if inside and not raised:
                r = ref_value(model, newest, cap, slot_of(q))
                ex.check((got == r) if r is not None else math.isnan(got), f"at(datetime) = {got}, reference content of the key's slot {r}")
    return fn


def instances(tier):
    I = Instance
    kw = dict(validate_every=200)
    out = [
        I("reach:cap2", "make", (2, 2, 5, "state", True), "reachability twin", budget_s=60, validate_every=0),
        I("cap1-k2-state", "make", (1, 2, 3, "state"), "capacity 1, 2 updates in a 3 s span", budget_s=200, **kw),
        I("cap2-k2-state", "make", (2, 2, 5, "state"), "capacity 2, 2 updates in a 5 s span: state after every update", budget_s=300, **kw),
        I("cap2-k2-dtq", "make", (2, 2, 4, "dtq"), "capacity 2, 2 updates in a 4 s span + datetime query", budget_s=600, **kw),
        I("cap2-k2-idxq", "make", (2, 2, 2, "idxq"), "capacity 2, 2 updates in a 2 s span + index query", budget_s=600, **kw),
        I("cap2-k2-at", "make_at", (2, 2, 4), "MovingWindow.at / [] with index or datetime key, capacity 2, 2 updates", budget_s=300, **kw),
        I("cap3-k2-at", "make_at", (3, 2, 5), "MovingWindow.at / [] with capacity 3 (interior gaps inside the covered range), 2 updates (budgeted)", budget_s=200, exhaustive=False, **kw),
        I("grid-cap4-k4-state", "make", (4, 4, 6, "state", False, True), "capacity 4, 4 updates on the slot grid (7 slots): state after every update", budget_s=300, **kw),
        I("grid-cap3-k3-dtq", "make", (3, 3, 4, "dtq", False, True), "capacity 3, 3 updates on the slot grid (5 slots) + symbolic datetime query", budget_s=300, **kw),
        I("grid-cap3-k3-state-200ms", "make", (3, 3, 5, "state", False, True, 200_000),
          "sampling period 200 ms (not representable in binary; concrete grid timestamps run the code's float arithmetic in IEEE), capacity 3, 3 updates", budget_s=200, **kw),
        I("grid-cap3-k2-dtq-halfgrid-200ms", "make", (3, 2, 4, "dtq", False, True, 200_000, True),
          "sampling period 200 ms, grid updates, datetime query bounds on the half-slot grid (exact ties of normalize_timestamp, IEEE arithmetic)", budget_s=200, **kw),
        I("grid-cap3-k3-state-numpy", "make", (3, 3, 4, "state", False, True, 1_000_000, False, True), "numpy container, capacity 3, 3 grid updates: state after every update", budget_s=100, **kw),
        I("grid-cap3-k2-dtq-numpy", "make", (3, 2, 4, "dtq", False, True, 1_000_000, False, True), "numpy container, grid updates + symbolic datetime query", budget_s=200, **kw),
        I("grid-cap2-k2-idxq-numpy", "make", (2, 2, 3, "idxq", False, True, 1_000_000, False, True), "numpy container, grid updates + index query", budget_s=100, **kw),
        I("cap2-k2-state-300ms", "make", (2, 2, 4, "state", False, False, 300_000), "sampling period 300 ms, capacity 2, 2 symbolic updates", budget_s=200, **kw),
        I("cap2-k2-state-333333us", "make", (2, 2, 4, "state", False, False, 333_333), "sampling period 333333 us (odd number of microseconds: half a period is not a timedelta), "
          "2 symbolic updates (budgeted: the modulus makes the integer queries slow)", budget_s=150, exhaustive=False, **kw),
        I("grid-cap2-k2-idxq-300ms", "make", (2, 2, 4, "idxq", False, True, 300_000), "sampling period 300 ms, grid updates + index query", budget_s=200, **kw),
    ]
    if tier != "quick":
        out += [
            I("cap1-k3-state", "make", (1, 3, 4, "state"), "capacity 1, 3 updates in a 4 s span", budget_s=400, **kw),
            I("cap2-k2-dtq-span5", "make", (2, 2, 5, "dtq"), "capacity 2, 2 updates in a 5 s span + datetime query", budget_s=600, **kw),
            I("cap2-k2-idxq-span4", "make", (2, 2, 4, "idxq"), "capacity 2, 2 updates in a 5 s span + index query", budget_s=900, **kw),
            I("cap3-k3-state", "make", (3, 3, 5, "state"), "capacity 3, 3 updates in a 5 s span: state after every update", budget_s=1500, validate_every=2000),
            I("cap2-k3-dtq", "make", (2, 3, 5, "dtq"), "capacity 2, 3 updates + datetime query (budgeted)", budget_s=900, exhaustive=False, validate_every=2000),
            I("cap3-k3-dtq", "make", (3, 3, 5, "dtq"), "capacity 3, 3 updates + datetime query (budgeted)", budget_s=900, exhaustive=False, validate_every=5000),
            I("cap3-k3-idxq", "make", (3, 3, 5, "idxq"), "capacity 3, 3 updates + index query (budgeted)", budget_s=900, exhaustive=False, validate_every=5000),
            I("cap3-k4-state", "make", (3, 4, 6, "state"), "capacity 3, 4 updates (budgeted)", budget_s=900, exhaustive=False, validate_every=5000),
            I("grid-cap4-k4-state-200ms", "make", (4, 4, 6, "state", False, True, 200_000), "sampling period 200 ms, capacity 4, 4 grid updates", budget_s=600, **kw),
            I("grid-cap5-k3-dtq-halfgrid-300ms", "make", (5, 3, 7, "dtq", False, True, 300_000, True),
              "sampling period 300 ms, capacity 5, 3 grid updates in 8 slots, half-slot-grid datetime queries (budgeted)", budget_s=900, exhaustive=False, **kw),
            I("cap2-k2-dtq-numpy", "make", (2, 2, 4, "dtq", False, False, 1_000_000, False, True), "numpy container, symbolic updates + datetime query", budget_s=600, exhaustive=False, **kw),
            I("cap2-k2-idxq-numpy", "make", (2, 2, 2, "idxq", False, False, 1_000_000, False, True), "numpy container, symbolic updates + index query", budget_s=600, exhaustive=False, **kw),
            I("grid-cap3-k3-dtq-300ms", "make", (3, 3, 4, "dtq", False, True, 300_000), "sampling period 300 ms, capacity 3, 3 grid updates + symbolic datetime query", budget_s=600, **kw),
            I("cap3-k3-at-70ms", "make_at", (3, 3, 4, False, 70_000), "sampling period 70 ms, MovingWindow.at", budget_s=600, exhaustive=False, **kw),
        ]
    return out
