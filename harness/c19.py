"""C19 — formulas switch to fallback components when a primary meter fails."""
from __future__ import annotations

import asyncio

from harness.common import E, EI, TS, z3, core
from harness import fx
from harness.fx import Power, Sample, Broadcast
from symx.runner import Instance

from datetime import timedelta
from frequenz.channels import Receiver as _Receiver, ReceiverError as _ReceiverError
from frequenz.sdk.timeseries.formula_engine._formula_engine import FormulaBuilder
from frequenz.sdk.timeseries.formula_engine._formula_steps import FallbackMetricFetcher

ID = "C19"
LEVEL = "model_checking"
install = fx.install
FUNCTIONS = ["MetricFetcher._fetch_next / fetch_next / fetch_next_with_fallback / _synchronize_and_fetch_fallback / _is_value_valid / apply",
             "FormulaEvaluator.apply", "FormulaEngine._run", "FallbackMetricFetcher (real base class: receive/ready/consume protocol)"]
SHIMS = fx.SHIMS + ["the fallback is a fake FallbackMetricFetcher subclass whose start() opens a new receiver on a Broadcast channel fed by the harness "
                    "(stands for FallbackFormulaMetricFetcher's lazily started formula engine: it only sees samples sent after start())",
                    "guard of 200 000 event-loop iterations per run: a loop that spins without ever blocking is reported as 'livelock'"]
ASSUMPTIONS = [
    "both streams carry one sample per timestamp T0 + k*1s (as produced by one resampler); per round the order 'fallback sample first' / 'primary sample first' is symbolic",
    "validity of every primary and fallback sample is symbolic (missing = None); valid values are symbolic reals",
    "start-up is made precise from the code's documented behaviour: the round in which the primary first fails emits None (fallback started, not awaited); "
    "from the next round on the fallback sample of the same timestamp is used whenever the primary is missing",
    "when the primary stream is closed, the term continues on the fallback stream; at most one timestamp is lost at the hand-over",
]
BOUNDS = {"quick": "formula = one term with fallback (4 timestamps) and term with fallback + plain term (3-4 timestamps); delivery lock-step, fallback one round early, or an initial burst; fake and real FallbackFormulaMetricFetcher; every validity pattern, delivery order pattern; primary closed after a symbolic number of samples (or never)",
          "thorough": "5 timestamps; additionally a second (plain) term"}
OUTSIDE = "fallback stream errors; more timestamps; generated formulas on other graphs than the one of the generated-* instances (C12 covers the formulas' topology dependence)"
BUDGET = {"quick": 400, "thorough": 1200}
PER = timedelta(seconds=1)


class StubGenerator:
    """Stands for a FormulaGenerator: generate() builds a real FormulaEngine over the harness' fallback channel, lazily."""

    namespace = "fallback"

    def __init__(self, chan):
        self._chan = chan
        self.engines = []

    def generate(self):
        from frequenz.sdk.timeseries.formula_engine._formula_engine import FormulaEngine

        e = FormulaEngine.from_receiver("fb", self._chan.new_receiver(limit=100), Power.from_watts)
        self.engines.append(e)
        return e


class ErrRx(_Receiver):
    """Wraps the primary receiver: once err_state['on'] is set every receive() raises a plain ReceiverError."""

    def __init__(self, inner, err_state):
        self._inner, self._st = inner, err_state

    async def ready(self):
        if self._st["on"]:
            return True
        return await self._inner.ready()

    def consume(self):
        if self._st["on"]:
            raise _ReceiverError("primary stream failed", self)
        return self._inner.consume()


class FakeFallback(FallbackMetricFetcher):
    def __init__(self, chan):
        super().__init__()
        self._chan = chan
        self._rx = None

    @property
    def name(self):
        return "fb"

    @property
    def is_running(self):
        return self._rx is not None

    def start(self):
        self._rx = self._chan.new_receiver(limit=100)

    async def ready(self):
        if self._rx is None:
            self.start()
        return await self._rx.ready()

    def consume(self):
        return self._rx.consume()


def make(K, second_term=False, reach=False, mode="lockstep", real_fetcher=False):
    """mode: 'lockstep' (one primary and one fallback sample per round, order symbolic), 'fb_ahead' (the fallback stream is
    delivered one round early throughout), 'burst' (the first K timestamps of both streams are delivered at once before the engine
    runs - the fallback samples for them are gone when the lazily started fallback subscribes - followed by 2 live rounds).
    real_fetcher: use the real FallbackFormulaMetricFetcher (with a stub generator building a real engine) instead of the fake."""
    from frequenz.sdk.timeseries.formula_engine._formula_generators._fallback_formula_metric_fetcher import FallbackFormulaMetricFetcher

    KT = K + 2 if mode == "burst" else K   # total number of timestamps

    def fn(ex):
        pvalid = [ex.flag(f"pvalid{k}") for k in range(KT)]
        fvalid = [ex.flag(f"fvalid{k}") for k in range(KT)] + [True, True]   # (+2: the fallback stream goes on after the last primary sample)
        first_missing = next((k for k in range(KT) if not pvalid[k]), None)
        fb_first = [ex.flag(f"fb_first{k}") if mode == "lockstep" else True for k in range(KT)]

        def fallback_available(j, f):
            """was fallback sample j sent after the lazily started fallback subscribed (= while primary sample f was handled)?"""
            if mode == "lockstep":
                rnd, after_p = j, not fb_first[j]
            elif mode == "fb_ahead":
                rnd, after_p = max(0, j - 1), False
            elif mode == "fb_ahead2":
                rnd, after_p = max(0, j - 2), False
            else:  # fb_pairs
                rnd, after_p = (0 if j == 0 else ((j - 1) // 2) * 2), False
            return rnd > f or (rnd == f and after_p)
        close_at = ex.choice("close_at", KT + 1) if mode == "lockstep" else KT  # KT = never closed; c: the primary delivers samples 0..c-1 and is then closed
        # closed within round c (in the order given by fb_first) or between rounds c-1 and c, before any sample of round c is sent
        close_early = ex.flag("closed_between_rounds") if (mode == "lockstep" and close_at < KT) else False
        # the primary ends by being closed (ReceiverStoppedError) or by raising a plain ReceiverError on every receive from then on
        errors = ex.flag("primary_errors_instead_of_closing") if (mode == "lockstep" and close_at < KT) else False
        err_state = {"on": False}
        nan_mode = ex.choice("missing_encoding", 3) if first_missing is not None else 0   # 0: None, 1: every missing sample is NaN-valued, 2: only the first one
        as_nan = [(not pvalid[k]) and (nan_mode == 1 or (nan_mode == 2 and k == first_missing)) for k in range(KT)]
        pv = [ex.real(f"p{k}") for k in range(KT)]
        fv = [ex.real(f"f{k}") for k in range(KT)] + [0.0, 0.0]
        sv = [ex.real(f"s{k}") for k in range(KT)] if second_term else None

        async def scenario():
            pc = Broadcast[Sample[Power]](name="p")
            fc = Broadcast[Sample[Power]](name="f")
            sc = Broadcast[Sample[Power]](name="s")
            gen = StubGenerator(fc)
            fb = FallbackFormulaMetricFetcher(gen) if real_fetcher else FakeFallback(fc)
            b = FormulaBuilder("f", Power.from_watts)
            prx = pc.new_receiver(limit=100)
            if errors:
                prx = ErrRx(prx, err_state)
            b.push_metric("m", prx, nones_are_zeros=False, fallback=fb)
            if second_term:
                b.push_oper("+")
                b.push_metric("s", sc.new_receiver(limit=100), nones_are_zeros=False)
            eng = b.build()
            rx = eng.new_receiver(max_size=100)
            ps, fs, ss = pc.new_sender(), fc.new_sender(), sc.new_sender()
            async def close_primary():
                if errors:   # the receiver raises a plain ReceiverError from now on (the stream is not closed)
                    err_state["on"] = True
                    await ps.send(Sample(TS, None))   # wakes a pending receive(), which then raises
                else:
                    await pc.close()

            async def send_p(k):
                if k < close_at:
                    missing = Power.from_watts(float("nan")) if as_nan[k] else None   # 'missing' arrives as None or as a NaN-valued sample
                    await ps.send(Sample(TS + k * PER, Power.from_watts(pv[k]) if pvalid[k] else missing))
                elif k == close_at and not close_early:
                    await close_primary()

            async def send_f(k):
                if k < KT + 2:
                    await fs.send(Sample(TS + k * PER, Power.from_watts(fv[k]) if fvalid[k] else None))

            async def send_s(k):
                if second_term:
                    await ss.send(Sample(TS + k * PER, Power.from_watts(sv[k])))
            if mode == "burst":
                for k in range(K):
                    await send_s(k)
                    await send_f(k)
                    await send_p(k)
                await asyncio.sleep(1.0)
                for k in range(K, KT):
                    await send_s(k)
                    await send_f(k)
                    await send_p(k)
                    await asyncio.sleep(1.0)
            else:
                if mode in ("fb_ahead", "fb_pairs", "fb_ahead2"):
                    await send_f(0)
                if mode == "fb_ahead2":
                    await send_f(1)
                    await asyncio.sleep(0.1)
                for k in range(KT):
                    if close_early and k == close_at:
                        # the primary stream is closed BETWEEN two rounds: the engine handles the closure before any sample of round k exists
                        await close_primary()
                        await asyncio.sleep(0.05)
                    await send_s(k)
                    if mode == "fb_ahead":
                        await send_f(k + 1)
                        await send_p(k)
                    elif mode == "fb_ahead2":
                        await send_f(k + 2)
                        await asyncio.sleep(0.1)   # the fallback engine emits its result before the (late) primary sample arrives
                        await send_p(k)
                    elif mode == "fb_pairs":
                        if k % 2 == 0:
                            await send_f(k + 1)
                            await send_f(k + 2)
                        await send_p(k)
                    elif fb_first[k]:
                        await send_f(k)
                        await send_p(k)
                    else:
                        await send_p(k)
                        await send_f(k)
                    await asyncio.sleep(1.0)
                if mode not in ("fb_pairs", "fb_ahead2"):
                    await send_f(KT + 1 if mode == "fb_ahead" else KT)   # the fallback stream continues
                await asyncio.sleep(1.0)
            outs = []
            while True:
                try:
                    outs.append(await asyncio.wait_for(rx.receive(), 3.0))
                except asyncio.TimeoutError:
                    break
                except Exception:  # noqa: BLE001
                    break
            try:
                await eng._stop()
                for e in gen.engines:
                    await e._stop()
            except Exception:  # noqa: BLE001
                pass
            return outs
        try:
            outs = fx.run_loop(scenario())
        except fx.Livelock:
            ex.check(False, "formula engine spins without emitting (livelock) after the primary stream failed")
            return
        if reach:
            if close_at < KT and len(outs) >= KT - 1:
                ex.check(False, "reach")
            return
        # the fallback stream goes on after the last primary timestamp; outputs for those later timestamps are not part of the scenario
        outs = [o for o in outs if (o.timestamp - TS) // PER < KT]
        nfail = [k for k in range(KT) if not pvalid[k] or k >= close_at]
        f = nfail[0] if nfail else None
        ex.observe("n_outputs", len(outs))
        # expected number of outputs: one per timestamp; a closed primary may cost one timestamp at the hand-over
        lost_ok = 1 if close_at < KT else 0
        ex.check(KT - lost_ok <= len(outs) <= KT, f"{len(outs)} samples emitted for {KT} timestamps")
        prev = None
        for o in outs:
            k = (o.timestamp - TS) // PER
            ex.check(0 <= k < KT and TS + k * PER == o.timestamp, "output timestamp is not an input timestamp")
            if prev is not None:
                ex.check(k > prev, "output timestamps repeat or go backwards")
                ex.check(k == prev + 1 or (close_at < KT and k == prev + 2 and prev < close_at <= k), "a timestamp was skipped")
            prev = k
            base = sv[k] if second_term else 0.0
            primary_ok = k < close_at and pvalid[k]
            if primary_ok:
                exp = pv[k] + base
                why = "primary valid but its value is not used"
            elif mode == "burst" and k < K:
                # the fallback samples of the burst were sent before the lazily started fallback subscribed: nothing to fall back to
                exp = None
                why = "burst: no fallback sample of this timestamp can exist, output must be None"
            elif mode in ("fb_ahead", "fb_pairs", "fb_ahead2") and f is not None and k > f and not fallback_available(k, f):
                # the fallback sample of this timestamp was sent (early) before the fallback was started
                exp = None
                why = "the fallback sample of this timestamp was sent before the fallback subscribed, output must be None"
            elif f is not None and k > f or (k >= close_at and f is not None and k >= f and close_at <= f):
                exp = (fv[k] + base) if fvalid[k] else None
                why = "primary missing after start-up: fallback sample of the same timestamp not used"
                if k >= close_at and k == f:
                    # hand-over round of a closed primary: either the fallback sample of this timestamp or nothing was possible
                    pass
            else:
                exp = None  # start-up round: the fallback has just been started
                why = "start-up round must be None"
            if exp is None:
                ex.check(o.value is None, f"round {k}: {why}")
            else:
                if o.value is None:
                    ex.check(False, f"round {k}: {why} (None emitted)")
                else:
                    ex.check(E(o.value.base_value) == E(exp) if not ex.concrete else fx.close_enough(o.value.base_value, exp), f"round {k}: {why}")
    return fn


GEN_TERMS = {  # kind -> (generator class name, metric, battery ids for the config, [(primary meter, [fallback components])])
    "grid": ("GridPowerFormula", "ACTIVE_POWER", None, [(2, [3]), (5, [6, 7])]),
    "grid_reactive": ("GridReactivePowerFormula", "REACTIVE_POWER", None, [(2, [3]), (5, [6, 7])]),
    "pv": ("PVPowerFormula", "ACTIVE_POWER", None, [(5, [6, 7])]),
    "battery": ("BatteryPowerFormula", "ACTIVE_POWER", {4}, [(2, [3])]),
    "producer": ("ProducerPowerFormula", "ACTIVE_POWER", None, [(5, [6, 7])]),
}


def make_generated(kind, K, reach=False):
    """End to end through the real generators: GRID 1 -> {battery meter 2 -> battery inverter 3 -> battery 4, PV meter 5 -> PV inverters 6, 7};
    the formula is generated with allow_fallback=True (real FallbackFormulaMetricFetcher, real lazily generated fallback formula);
    the harness plays the resampling actor: it serves every ComponentMetricRequest it receives, per (component, metric) with that
    metric's value - active and reactive power of every device are different symbolic values; a meter measures the sum of its devices
    or delivers a missing sample (symbolic per meter and round)."""
    import types
    from frequenz.client.microgrid import Component, ComponentCategory as CC, ComponentMetricId, Connection, InverterType as IT
    from frequenz.quantities import Quantity
    from frequenz.sdk._internal._channels import ChannelRegistry
    from frequenz.sdk.microgrid import connection_manager
    from frequenz.sdk.microgrid.component_graph import _MicrogridComponentGraph
    from frequenz.sdk.microgrid._data_pipeline import ComponentMetricRequest
    import frequenz.sdk.timeseries.formula_engine._formula_generators as gens
    from frequenz.sdk.timeseries.formula_engine._formula_generators._grid_reactive_power_formula import GridReactivePowerFormula

    cls_name, metric_name, bat_ids, terms = GEN_TERMS[kind]
    cls = GridReactivePowerFormula if cls_name == "GridReactivePowerFormula" else getattr(gens, cls_name)
    metric = getattr(ComponentMetricId, metric_name)
    devices = [3, 6, 7]
    kids = {2: [3], 5: [6, 7]}

    def fn(ex):
        comps = {Component(1, CC.GRID), Component(2, CC.METER), Component(3, CC.INVERTER, IT.BATTERY), Component(4, CC.BATTERY), Component(5, CC.METER),
                 Component(6, CC.INVERTER, IT.SOLAR), Component(7, CC.INVERTER, IT.SOLAR)}
        conns = {Connection(1, 2), Connection(2, 3), Connection(3, 4), Connection(1, 5), Connection(5, 6), Connection(5, 7)}
        connection_manager._CONNECTION_MANAGER = types.SimpleNamespace(component_graph=_MicrogridComponentGraph(comps, conns), api_client=None)
        base = {(d, m): ex.real(f"{'p' if m == ComponentMetricId.ACTIVE_POWER else 'q'}{d}") for d in devices
                for m in (ComponentMetricId.ACTIVE_POWER, ComponentMetricId.REACTIVE_POWER)}
        mvalid = {(m_, k): ex.flag(f"m{m_}valid{k}") for m_, _ in terms for k in range(K)}

        def value(cid, m, k):
            if cid in kids:
                if (cid, k) in mvalid and not mvalid[(cid, k)]:
                    return None
                return sum((value(d, m, k) for d in kids[cid]), 0.0)
            return base[(cid, m)] + float(k) if (cid, m) in base else 0.0

        async def scenario():
            reg = ChannelRegistry(name="reg")
            sub = Broadcast[ComponentMetricRequest](name="sub")
            sub_rx = sub.new_receiver(limit=100)
            eng = cls("ns", reg, sub.new_sender(), gens.FormulaGeneratorConfig(component_ids=bat_ids, allow_fallback=True)).generate()
            rx = eng.new_receiver(max_size=100)
            served = {}
            for k in range(K + 1):
                while True:  # the resampling actor picks up new subscriptions
                    try:
                        req = await asyncio.wait_for(sub_rx.receive(), 0.001)
                    except asyncio.TimeoutError:
                        break
                    name = req.get_channel_name()
                    if name not in served:
                        served[name] = (reg.get_or_create(Sample[Quantity], name).new_sender(), req.component_id, req.metric_id)
                if k < K:
                    for snd, cid, m in list(served.values()):
                        v = value(cid, m, k)
                        await snd.send(Sample(TS + k * PER, None if v is None else Quantity(v)))
                await asyncio.sleep(1.0)
            outs = []
            while True:
                try:
                    outs.append(await asyncio.wait_for(rx.receive(), 3.0))
                except (asyncio.TimeoutError, Exception):  # noqa: BLE001
                    break
            try:
                await eng._stop()
            except Exception:  # noqa: BLE001
                pass
            return outs, sorted((c, str(m)) for _, c, m in served.values())
        try:
            outs, served = fx.run_loop(scenario())
        except fx.Livelock:
            ex.check(False, "formula engine spins without emitting (livelock)")
            return
        if reach:
            if len(outs) == K and any(not v for v in mvalid.values()):
                ex.check(False, "reach")
            return
        ex.observe("served", served)
        ex.check(len(outs) == K, f"{len(outs)} samples emitted for {K} timestamps")
        for o in outs:
            k = (o.timestamp - TS) // PER
            ex.check(0 <= k < K and TS + k * PER == o.timestamp, "output timestamp is not an input timestamp")
            exp = 0.0
            why = ""
            for m_, fbs in terms:
                fails = [j for j in range(K) if not mvalid[(m_, j)]]
                f = fails[0] if fails else None
                if mvalid[(m_, k)]:
                    t = value(m_, metric, k)
                elif f is not None and k > f:
                    t = sum((value(d, metric, k) for d in fbs), 0.0)   # the fallback components' value OF THE SAME METRIC
                    why = f"meter {m_} missing after start-up: the sum of its fallback components {fbs} ({metric_name}) must be used"
                else:
                    t = None
                    why = f"start-up round of meter {m_}'s fallback must be None"
                exp = None if (exp is None or t is None) else exp + t
            if exp is None:
                ex.check(o.value is None, f"round {k}: {why}")
            elif o.value is None:
                ex.check(False, f"round {k}: None emitted; {why}")
            else:
                ex.check(E(o.value.base_value) == E(exp) if not ex.concrete else fx.close_enough(o.value.base_value, exp),
                         f"round {k}: output != true {metric_name} total; {why}")
    return fn


def instances(tier):
    I = Instance
    out = [I("reach:K3", "make", (3, False, True), "reachability twin", budget_s=100, validate_every=0),
           I("K3", "make", (3,), "3 timestamps, lock-step rounds, primary may be closed", budget_s=300, validate_every=100),
           I("K4", "make", (4,), "4 timestamps", budget_s=600, validate_every=500),
           I("K3-2terms", "make", (3, True), "3 timestamps, formula = term with fallback + plain term (misalignment between terms becomes visible)",
             budget_s=600, validate_every=500),
           I("K3-2terms-realfetcher", "make", (3, True, False, "lockstep", True), "same with the real FallbackFormulaMetricFetcher (stub generator, real fallback engine)",
             budget_s=600, validate_every=500),
           I("K4-2terms-fb-ahead-realfetcher", "make", (4, True, False, "fb_ahead", True), "fallback stream delivered one round early, real fetcher", budget_s=300, validate_every=100),
           I("K5-2terms-fb-pairs-realfetcher", "make", (5, True, False, "fb_pairs", True), "fallback samples delivered two at a time every second round, real fetcher",
             budget_s=300, validate_every=100),
           I("K5-2terms-fb-ahead2-realfetcher", "make", (5, True, False, "fb_ahead2", True), "fallback stream two rounds early and the primary late (2 unread fallback results), real fetcher",
             budget_s=300, validate_every=100),
           I("K2+2-2terms-burst", "make", (2, True, False, "burst", False), "first 2 timestamps delivered as a burst before the engine runs, then 2 live rounds",
             budget_s=300, validate_every=100)]
    out.append(I("reach:generated-grid", "make_generated", ("grid", 3, True), "reachability twin", budget_s=60, validate_every=0))
    for kind in GEN_TERMS:
        out.append(I(f"generated-{kind}-K3", "make_generated", (kind, 3), f"real {GEN_TERMS[kind][0]} with allow_fallback on a real component graph, harness as resampling actor "
                     "serving active and reactive power per component, 3 timestamps, every meter validity pattern", budget_s=120, validate_every=20))
    if tier != "quick":
        for kind in ("grid", "grid_reactive"):
            out.append(I(f"generated-{kind}-K4", "make_generated", (kind, 4), "4 timestamps", budget_s=300, validate_every=50))
        out.append(I("K5", "make", (5,), "5 timestamps", budget_s=900, validate_every=2000, exhaustive=False))
        out.append(I("K3+2-2terms-burst-realfetcher", "make", (3, True, False, "burst", True), "burst of 3 + 2 live rounds, real fetcher", budget_s=600, validate_every=500))
        out.append(I("K5-2terms-fb-ahead", "make", (5, True, False, "fb_ahead", False), "5 timestamps, fallback one round early", budget_s=600, validate_every=500))
    return out
