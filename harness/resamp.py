"""Shims for frequenz.sdk.timeseries._resampling (shared by C07 and C08)."""
from __future__ import annotations

import collections
import datetime as _dt

from harness.common import E, EI, z3, core

import frequenz.sdk.timeseries._resampling as rs

_real_timedelta = _dt.timedelta
_real_datetime = _dt.datetime


class Clock:
    now = None  # harness clock: a proxy or a real datetime


class _DTMeta(type):
    def __instancecheck__(cls, o):
        return isinstance(o, _real_datetime)


class DatetimeShim(metaclass=_DTMeta):
    """datetime.now() returns the harness clock; everything else is the real class."""

    def __new__(cls, *a, **k):
        return _real_datetime(*a, **k)

    @staticmethod
    def now(tz=None):
        if Clock.now is None:
            return _real_datetime.now(tz)
        return Clock.now

    fromtimestamp = _real_datetime.fromtimestamp
    min = _real_datetime.min
    max = _real_datetime.max


class _TDMeta(type):
    def __instancecheck__(cls, o):
        return isinstance(o, _real_timedelta)


class TimedeltaShim(metaclass=_TDMeta):
    """timedelta(seconds=<proxy real>) rounds to microseconds like CPython (round-half-even)."""

    def __new__(cls, *a, **k):
        if any(type(v) in (core.SymReal, core.SymInt) for v in list(a) + list(k.values())):
            if a or set(k) != {"seconds"}:
                raise core.HarnessError("TimedeltaShim: only timedelta(seconds=<proxy>) is modelled")
            v = k["seconds"]
            us = (v.e if type(v) is core.SymReal else z3.ToReal(v.e)) * 1000000
            return core.SymTD(core.rhe_real(us))
        return _real_timedelta(*a, **k)

    min = _real_timedelta.min
    max = _real_timedelta.max
    resolution = _real_timedelta.resolution


def _deque(it=(), maxlen=None):
    if type(maxlen) is core.SymInt:
        maxlen = maxlen.__index__()
    return collections.deque(it, maxlen=maxlen)


_orig_to_us = rs._to_microseconds


def _to_us(td):
    if type(td) is core.SymTD:
        return core.SymInt(td.us)
    return _orig_to_us(td)


_installed = False


def install():
    global _installed
    if _installed:
        return
    _installed = True
    rs.datetime = DatetimeShim
    rs.timedelta = TimedeltaShim
    rs.deque = _deque
    rs._to_microseconds = _to_us


SHIMS = ["_resampling.datetime.now() returns the harness clock (arbitrary symbolic instant)",
         "_resampling.timedelta(seconds=<proxy>) rounds half-even to 1 us like CPython", "_resampling.deque(maxlen=<proxy int>) realises the length by forking",
         "_resampling._to_microseconds accepts proxy timedeltas", "math.ceil dispatch on proxies"]
