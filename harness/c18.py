"""C18 — pool SoC and capacity are the documented aggregates of working batteries."""
from __future__ import annotations

from harness.common import E, TS, z3, core, tolz
from symx.runner import Instance

from frequenz.client.microgrid import ComponentMetricId as M
from frequenz.sdk.timeseries.battery_pool._component_metrics import ComponentMetricsData
from frequenz.sdk.timeseries.battery_pool._metric_calculator import SoCCalculator, CapacityCalculator

ID = "C18"
LEVEL = "model_checking"
FUNCTIONS = ["SoCCalculator.calculate", "CapacityCalculator.calculate", "ComponentMetricsData.get", "_internal._math.is_close_to_zero",
             "frequenz.quantities Percentage/Energy constructors (third party, executed as is)",
             "LatestMetricsFetcher.fetch_next (NaN dropping)", "SendOnUpdate.update_working_batteries (cache eviction)", "BatteryPool.soc / BatteryPool.capacity (stream creation)"]
SHIMS = ["math.isclose dispatch on proxies (exact reals)", "calculators built with __new__ (calculate() reads no instance state)"]
ASSUMPTIONS = [
    "exact reals; capacity in [0, 1e6], SoC in [-10, 110], 0 <= soc_lower <= soc_upper <= 100",
    "SoC limits are equal or differ by >= 1e-6 (inside that band the code's own math.isclose(upper, lower) legitimately picks the equal-limits branch)",
    "weighted-mean / monotone / scale clauses only where total usable capacity x100 >= 1 in every run compared (away from the is_close_to_zero cut-off at 1e-9)",
    "a missing or NaN metric is modelled as an absent key (LatestMetricsFetcher drops NaN metrics before they reach the calculator; that filter is a concrete replay only)",
]
BOUNDS = {"quick": "<=3 batteries: every missing-metric pattern and working subset, all values symbolic; range, monotone and scale invariance with complete data for 2 and 3 batteries",
          "thorough": "range and monotonicity with 4 batteries (monotone budgeted)"}
OUTSIDE = "more than 3 batteries (4 for range/monotone in the thorough tier); IEEE rounding; the asyncio plumbing of SendOnUpdate (only its two pure steps are driven)"
BUDGET = {"quick": 300, "thorough": 900}
KEYS = [M.CAPACITY, M.SOC, M.SOC_LOWER_BOUND, M.SOC_UPPER_BOUND]
SOC = SoCCalculator.__new__(SoCCalculator)
CAP = CapacityCalculator.__new__(CapacityCalculator)


def mk(ex, n, patterns=True):
    data, vs = {}, []
    for i in range(n):
        cap, soc, lo, hi = ex.real(f"cap{i}"), ex.real(f"soc{i}"), ex.real(f"lo{i}"), ex.real(f"hi{i}")
        ex.assume(z3.And(E(cap) >= 0, E(cap) <= 10**6, E(lo) >= 0, E(lo) <= E(hi), E(hi) <= 100, E(soc) >= -10, E(soc) <= 110))
        ex.assume(z3.Or(E(hi) == E(lo), E(hi) - E(lo) >= z3.RealVal("1/1000000")))
        present = [ex.flag(f"has{i}_{k}") if patterns else True for k in range(4)]
        data[i] = ComponentMetricsData(i, TS, {k: v for k, v, p in zip(KEYS, [cap, soc, lo, hi], present) if p})
        vs.append((cap, soc, lo, hi, present))
    return data, vs


def scaled_term(soc, lo, hi):
    s = z3.If(E(hi) == E(lo), z3.If(E(soc) < E(lo), z3.RealVal(0), z3.RealVal(100)), (E(soc) - E(lo)) / (E(hi) - E(lo)) * 100)
    return z3.If(s < 0, 0, z3.If(s > 100, 100, s))


def make_mean(n, reach=False):
    def fn(ex):
        data, vs = mk(ex, n)
        working = {i for i in range(n) if ex.flag(f"working{i}")}
        out = SOC.calculate(data, working)
        q = [i for i in working if all(vs[i][4])]
        qc = [i for i in working if vs[i][4][0] and vs[i][4][2] and vs[i][4][3]]
        if reach:
            if out.value is not None:
                ex.check(False, "reach")
            return
        ex.check((out.value is None) == (len(q) == 0), "SoC is None iff no working battery has all metrics")
        cap_out = CAP.calculate(data, working)
        ex.check((cap_out.value is None) == (len(qc) == 0), "capacity is None iff no working battery has capacity and limits")
        if cap_out.value is not None:
            tot = sum((E(vs[i][0]) * (E(vs[i][3]) - E(vs[i][2])) / 100 for i in qc), z3.RealVal(0))
            got = E(cap_out.value.as_watt_hours())
            ex.observe("capacity", cap_out.value.as_watt_hours())
            ex.check(core.zabs(got - tot) <= tolz(tot), "capacity != sum of usable capacities of qualifying working batteries")
        if out.value is None:
            return
        v = E(out.value.as_percent())
        ex.observe("soc", out.value.as_percent())
        ex.check(z3.And(v >= 0, v <= 100), "pool SoC outside [0, 100]")
        num, den = z3.RealVal(0), z3.RealVal(0)
        for i in q:
            cap, soc, lo, hi, _ = vs[i]
            usable = E(cap) * (E(hi) - E(lo))
            num = num + usable * scaled_term(soc, lo, hi)
            den = den + usable
        ex.check(z3.Implies(den >= 1, core.zabs(v * den - num) <= den / 1000000), "pool SoC != usable-capacity-weighted mean of clamped rescaled SoCs")
    return fn


def make_range(n):
    def fn(ex):
        data, vs = mk(ex, n, patterns=False)
        out = SOC.calculate(data, set(range(n)))
        v = E(out.value.as_percent())
        ex.observe("soc", out.value.as_percent())
        ex.check(z3.And(v >= 0, v <= 100), "pool SoC outside [0, 100]")
    return fn


def make_mono(n):
    def fn(ex):
        data, vs = mk(ex, n, patterns=False)
        a = SOC.calculate(data, set(range(n)))
        soc2 = ex.real("soc0_b")
        ex.assume(z3.And(E(soc2) >= E(vs[0][1]), E(soc2) <= 110))
        d2 = dict(data)
        d2[0] = ComponentMetricsData(0, TS, {M.CAPACITY: vs[0][0], M.SOC: soc2, M.SOC_LOWER_BOUND: vs[0][2], M.SOC_UPPER_BOUND: vs[0][3]})
        b = SOC.calculate(d2, set(range(n)))
        ex.observe("a", a.value.as_percent())
        ex.observe("b", b.value.as_percent())
        ex.check(E(b.value.as_percent()) >= E(a.value.as_percent()) - z3.RealVal("1/1000000"), "pool SoC decreases when one battery's SoC increases")
    return fn


def make_scale(n):
    def fn(ex):
        k = ex.real("k")
        ex.assume(z3.And(E(k) >= z3.RealVal("1/1000"), E(k) <= 1000))
        data, vs = mk(ex, n, patterns=False)
        for i in range(n):
            ex.assume(E(vs[i][0]) * E(k) <= 10**6)
        tot = sum((E(vs[i][0]) * (E(vs[i][3]) - E(vs[i][2])) for i in range(n)), z3.RealVal(0))
        ex.assume(z3.And(tot >= 1, tot * E(k) >= 1))
        a = SOC.calculate(data, set(range(n)))
        d2 = {i: ComponentMetricsData(i, TS, {M.CAPACITY: vs[i][0] * k, M.SOC: vs[i][1], M.SOC_LOWER_BOUND: vs[i][2], M.SOC_UPPER_BOUND: vs[i][3]}) for i in range(n)}
        b = SOC.calculate(d2, set(range(n)))
        va, vb = E(a.value.as_percent()), E(b.value.as_percent())
        ex.observe("a", a.value.as_percent())
        ex.check(core.zabs(va - vb) <= z3.RealVal("1/1000000"), "pool SoC changes when all capacities are scaled by a common factor")
    return fn


def make_pipeline(reach=False):
    """The layers in front of the calculators: LatestBatteryMetricsFetcher.fetch_next drops NaN metrics (so they count as missing),
    and SendOnUpdate.update_working_batteries evicts cached metrics of batteries (and their inverters) that stop working."""
    import asyncio
    import types
    from harness.common import battery_data
    from harness import fx
    from frequenz.sdk.timeseries.battery_pool._component_metric_fetcher import LatestBatteryMetricsFetcher
    from frequenz.sdk.timeseries.battery_pool._methods import SendOnUpdate

    NAN = float("nan")

    def fn(ex):
        present = [ex.flag(f"has_{k}") for k in range(4)]
        vals = [ex.real("cap"), ex.real("soc"), ex.real("lo"), ex.real("hi")]
        ex.assume(z3.And(E(vals[0]) >= 0, E(vals[0]) <= 10**6, E(vals[2]) >= 0, E(vals[2]) <= E(vals[3]), E(vals[3]) <= 100, E(vals[1]) >= -10, E(vals[1]) <= 110))
        ex.assume(z3.Or(E(vals[3]) == E(vals[2]), E(vals[3]) - E(vals[2]) >= z3.RealVal("1/1000000")))
        msg = battery_data(9, capacity=vals[0] if present[0] else NAN, soc=vals[1] if present[1] else NAN,
                           soc_lower_bound=vals[2] if present[2] else NAN, soc_upper_bound=vals[3] if present[3] else NAN)

        class Rx:
            async def receive(self):
                return msg
        f = LatestBatteryMetricsFetcher.__new__(LatestBatteryMetricsFetcher)
        f._component_id = 9
        f._metrics = list(KEYS)
        f._receiver = Rx()
        f._max_waiting_time = 5.0
        data = fx.run_loop(f.fetch_next())
        if reach:
            ex.check(False, "reach")
            return
        for k, key in enumerate(KEYS):
            ex.check((data.get(key) is not None) == present[k], "a NaN metric must be dropped by the fetcher (and a present one kept)")
        out = SOC.calculate({9: data}, {9})
        ex.check((out.value is None) == (not all(present)), "a battery with a NaN metric must not qualify for the pool SoC")
        # cache eviction
        s_ = SendOnUpdate.__new__(SendOnUpdate)
        stays = ex.flag("battery19_keeps_working")
        s_._metric_calculator = types.SimpleNamespace(batteries={9, 19})
        s_._working_batteries = {9, 19}
        s_._bat_inv_map = {9: frozenset({8}), 19: frozenset({18})}
        s_._cached_metrics = {9: "b9", 8: "i8", 19: "b19", 18: "i18"}
        s_._update_event = types.SimpleNamespace(flag=False, set=lambda: setattr(s_._update_event, "flag", True))
        s_.update_working_batteries({19} if stays else set())
        exp = {19: "b19", 18: "i18"} if stays else {}
        ex.check(s_._cached_metrics == exp, "cached metrics of batteries that stopped working (and of their inverters) must be evicted, others kept")
        ex.check(s_._working_batteries == ({19} if stays else set()) and s_._update_event.flag, "working set not updated / recalculation not triggered")
    return fn


def make_wiring(n):
    """BatteryPool.soc / BatteryPool.capacity as the pool wires them: the real properties are evaluated on a pool whose reference
    store holds n batteries and a symbolic working subset; the SendOnUpdate class is replaced by a recorder, and the recorded
    calculator is then run on complete symbolic data with the recorded working set (= what the first emitted value is computed from)."""
    import types
    from datetime import timedelta
    import frequenz.sdk.timeseries.battery_pool._battery_pool as bp

    def fn(ex):
        data, vs = mk(ex, n, patterns=False)
        working = {i for i in range(n) if ex.flag(f"working{i}")}
        made = []

        class Recorder:
            @staticmethod
            def name():
                return "SendOnUpdate"

            def __init__(self, working_batteries, metric_calculator, min_update_interval):
                self.working = set(working_batteries) & set(metric_calculator.batteries)   # as SendOnUpdate.__init__ does
                self.calc = metric_calculator
                made.append(self)
        real = bp.SendOnUpdate
        bp.SendOnUpdate = Recorder
        try:
            pool = bp.BatteryPool.__new__(bp.BatteryPool)
            pool._pool_ref_store = types.SimpleNamespace(_batteries=frozenset(range(n)), _working_batteries=set(working), _active_methods={},
                                                         _min_update_interval=timedelta(seconds=1))
            soc_stream, cap_stream = pool.soc, pool.capacity
            again = pool.capacity
        finally:
            bp.SendOnUpdate = real
        ex.check(again is cap_stream and len(made) == 2, "a second access created a second stream")
        for st, label in ((soc_stream, "soc"), (cap_stream, "capacity")):
            ex.check(st.calc.batteries == frozenset(range(n)), f"{label}: calculator not created for the pool's batteries")
            ex.check(st.working == working, f"{label} stream starts with working set {sorted(st.working)}, the pool's working batteries are {sorted(working)}")
        cap_out = cap_stream.calc.calculate(data, cap_stream.working)
        tot = sum((E(vs[i][0]) * (E(vs[i][3]) - E(vs[i][2])) / 100 for i in working), z3.RealVal(0))
        if not working:
            ex.check(cap_out.value is None, "capacity must be None without working batteries")
        else:
            ex.check(cap_out.value is not None and core.zabs(E(cap_out.value.as_watt_hours()) - tot) <= tolz(tot),
                     "first capacity value != sum of usable capacities of the WORKING batteries")
        soc_out = soc_stream.calc.calculate(data, soc_stream.working)
        ex.check((soc_out.value is None) == (not working), "first SoC value None-ness does not follow the working set")
    return fn


def instances(tier):
    I = Instance
    kw = dict(incremental=False, validate_every=25, timeout_ms=30000)
    out = [
        I("reach:mean-1", "make_mean", (1, True), "reachability twin", budget_s=60, incremental=False, validate_every=0),
        I("mean-1", "make_mean", (1,), "1 battery: None-ness, range, mean, capacity", budget_s=100, **kw),
        I("mean-2", "make_mean", (2,), "2 batteries, all missing patterns and working subsets", budget_s=300, **kw),
        I("range-3", "make_range", (3,), "3 batteries complete data: range", budget_s=200, **kw),
        I("mono-2", "make_mono", (2,), "2 batteries: monotone in battery 0's SoC", budget_s=200, **kw),
        I("scale-2", "make_scale", (2,), "2 batteries: scale invariance", budget_s=200, **kw),
        I("wiring-2", "make_wiring", (2,), "BatteryPool.soc/.capacity: streams are created for the pool's batteries with the current working subset (every subset of 2)", budget_s=100, **kw),
        I("pipeline", "make_pipeline", (), "fetcher drops NaN metrics; SendOnUpdate evicts cached metrics of batteries that stop working", budget_s=100, **kw),
    ]
    out += [
        I("mono-3", "make_mono", (3,), "3 batteries: monotone", budget_s=600, **kw),
        I("scale-3", "make_scale", (3,), "3 batteries: scale invariance", budget_s=600, **kw),
    ]
    out.append(I("mean-3", "make_mean", (3,), "3 batteries, all missing patterns and working subsets", budget_s=600, **{**kw, "validate_every": 500}))
    if tier != "quick":
        out += [
            I("range-4", "make_range", (4,), "4 batteries complete data: range (budgeted)", exhaustive=False, budget_s=120, **kw),
            I("mono-4", "make_mono", (4,), "4 batteries: monotone (budgeted)", budget_s=120, exhaustive=False, **kw),
        ]
    return out
