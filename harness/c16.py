"""C16 — a battery is reported usable only while its data proves it healthy."""
from __future__ import annotations

import types
from datetime import timedelta

from harness.common import E, EI, z3, core, battery_data, inverter_data
from harness.resamp import Clock, DatetimeShim
from symx.runner import Instance

from frequenz.client.microgrid import (BatteryComponentState, BatteryRelayState, InverterComponentState, Component, ComponentCategory as CC,
                                       Connection, InverterType, BatteryError, InverterError, ErrorLevel, BatteryErrorCode, InverterErrorCode)
from frequenz.sdk.microgrid import connection_manager
from frequenz.sdk.microgrid.component_graph import _MicrogridComponentGraph
import frequenz.sdk.microgrid._power_distributing._component_status._battery_status_tracker as bst
import frequenz.sdk.microgrid._power_distributing._component_status._blocking_status as bls
from frequenz.sdk.microgrid._power_distributing._component_status import ComponentStatusEnum as St, SetPowerResult, ComponentPoolStatus

ID = "C16"
LEVEL = "model_checking"
FUNCTIONS = ["BatteryStatusTracker.__init__", "BatteryStatusTracker._run (dispatch loop)", "_handle_status_battery/_inverter/_set_power_result/_battery_timer/_inverter_timer",
             "_get_current_status/_get_new_status_if_changed", "_is_message_reliable/_is_timestamp_outdated/_is_battery_state_correct/_is_inverter_state_correct/"
             "_no_critical_error/_is_capacity_present", "BlockingStatus.block/unblock/is_blocked", "ComponentPoolStatus.get_working_components", "ComponentPoolStatusTracker._update_status/get_working_components"]
SHIMS = ["datetime.now() in _battery_status_tracker and _blocking_status returns the harness clock (arbitrary non-decreasing symbolic instant)",
         "frequenz.channels select()/selected_from()/Timer are replaced by a harness source that yields the symbolic event sequence; contract of the stand-in timer: "
         "it fires only when now - last_reset >= max_data_age, it is periodic, and no other event is delivered while a timer is overdue (not starved)",
         "connection_manager = namespace with a real component graph and a fake API client", "the _run coroutine is driven synchronously (no real awaits are left)"]
ASSUMPTIONS = ["max_data_age 5 s, max blocking duration 30 s (min 1 s: repo default)", "inter-event delays in [0, 20 s], message ages in [0, 20 s], all symbolic microseconds",
               "each battery message is healthy or faulty in exactly one way (component state, relay state, critical error, NaN capacity); inverter: component state, critical error",
               "set-power results: battery succeeded / failed / not mentioned"]
BOUNDS = {"quick": "4 arbitrary events (safety + exact expected status + notify-on-change); 5 events with healthy fresh data for the blocking ladder",
          "thorough": "5 arbitrary events; 7 events for the blocking ladder (durations 1, 2, 4, ... capped at 30 s)"}
OUTSIDE = "the real select/Timer implementations; EV-charger and PV status trackers; ComponentPoolStatusTracker fan-in (only get_working_components)"
BUDGET = {"quick": 900, "thorough": 1800}
MAXAGE = timedelta(seconds=5)
MAXBLOCK = timedelta(seconds=30)
US = timedelta(microseconds=1)
_inst = False


class StubTimer:
    def __init__(self, interval, policy, **kw):
        self.interval = interval
        self.last_reset = Clock.now

    def reset(self, **kw):
        self.last_reset = Clock.now


class Done(BaseException):
    pass


class Sel:
    def __init__(self, src, msg):
        self.src, self.message = src, msg


class Script:
    events = None


def stub_select(*recvs):
    async def gen():
        for ev in Script.events(recvs):
            yield ev
        raise Done()
    return gen()


BAT_RX, INV_RX, RES_RX = object(), object(), object()


class FakeApi:
    async def battery_data(self, cid):
        return BAT_RX

    async def inverter_data(self, cid):
        return INV_RX


def install():
    global _inst
    if _inst:
        return
    _inst = True
    bst.datetime = DatetimeShim
    bls.datetime = DatetimeShim
    bst.Timer = StubTimer
    bst.select = stub_select
    bst.selected_from = lambda sel, recv: sel.src is recv


GRAPH = _MicrogridComponentGraph({Component(1, CC.GRID), Component(2, CC.METER), Component(8, CC.INVERTER, InverterType.BATTERY), Component(9, CC.BATTERY)},
                                 {Connection(1, 2), Connection(2, 8), Connection(8, 9)})


def bat_msg(fault, ts):
    kw = dict(capacity=100.0, relay_state=BatteryRelayState.CLOSED, component_state=BatteryComponentState.IDLE, errors=[])
    if fault == 1:
        kw["component_state"] = BatteryComponentState.ERROR
    elif fault == 2:
        kw["relay_state"] = BatteryRelayState.OPENED
    elif fault == 3:
        kw["errors"] = [BatteryError(code=BatteryErrorCode.UNSPECIFIED, level=ErrorLevel.CRITICAL, message="x")]
    elif fault == 4:
        kw["capacity"] = float("nan")
    return battery_data(9, ts, **kw)


def inv_msg(fault, ts):
    kw = dict(component_state=InverterComponentState.IDLE, errors=[])
    if fault == 1:
        kw["component_state"] = InverterComponentState.ERROR
    elif fault == 2:
        kw["errors"] = [InverterError(code=InverterErrorCode.UNSPECIFIED, level=ErrorLevel.CRITICAL, message="x")]
    return inverter_data(8, ts, **kw)


def make(K, healthy_only=False, reach=False):
    """K symbolic events.  healthy_only: both streams are healthy and fresh throughout (delays < max age), events are
    {battery message, success, failure, result not mentioning the battery}: isolates the blocking ladder."""
    def fn(ex):
        connection_manager._CONNECTION_MANAGER = types.SimpleNamespace(component_graph=GRAPH, api_client=FakeApi())
        Clock.now = ex.dt("t0", 10**15, 2 * 10**15)
        sent = []

        class Sender:
            async def send(self, m):
                sent.append(m.value)
        tr = bst.BatteryStatusTracker(9, MAXAGE, MAXBLOCK, Sender(), RES_RX)
        # reference state
        ref = {"bat_ok": False, "inv_ok": False, "until": None, "dur": None, "status": St.NOT_WORKING}

        def ref_update_status():
            ok = ref["bat_ok"] and ref["inv_ok"]
            if not ok:
                new = St.NOT_WORKING
            elif ref["status"] == St.NOT_WORKING:
                ref["until"] = None  # a recovered battery is tried again at once
                new = St.WORKING
            else:
                blocked = ref["until"] is not None and ex.branch(EI(ref["until"]) > EI(Clock.now))
                new = St.UNCERTAIN if blocked else St.WORKING
            changed = new != ref["status"]
            ref["status"] = new
            return changed

        def events(recvs):
            battery, battery_timer, inverter_timer, inverter, set_power_result = recvs
            nsent_ref = 0
            if healthy_only:
                yield Sel(battery, bat_msg(0, Clock.now))
                ref["bat_ok"] = True
                ref_update_status()
                yield Sel(inverter, inv_msg(0, Clock.now))
                ref["inv_ok"] = True
                nsent_ref += int(ref_update_status())
            for k in range(K):
                d = ex.td(f"d{k}", 0, 4_000_000 if healthy_only else 20_000_000)
                Clock.now = Clock.now + d
                now = Clock.now
                bat_over = ex.branch(EI(now) - EI(battery_timer.last_reset) > EI(MAXAGE))
                inv_over = ex.branch(EI(now) - EI(inverter_timer.last_reset) > EI(MAXAGE))
                if healthy_only:
                    kind = [0, 4, 5, 6][ex.choice(f"kind{k}", 4)]
                    if bat_over or inv_over:
                        ex.assume(False)  # keep data fresh in this instance
                    if kind == 0 and ex.flag(f"inv_instead{k}"):
                        kind = 1
                elif bat_over:
                    kind = 2  # an overdue timer is delivered before anything else
                elif inv_over:
                    kind = 3
                else:
                    kind = ex.choice(f"kind{k}", 7)
                if kind == 0:
                    fault = 0 if healthy_only else ex.choice(f"fault{k}", 5)
                    age = 0 * US if (healthy_only or fault != 0) else ex.td(f"age{k}", 0, 20_000_000)  # age only matters for a healthy message
                    ref["bat_ok"] = fault == 0 and ex.branch(EI(age) <= EI(MAXAGE))
                    yield Sel(battery, bat_msg(fault, now - age))
                elif kind == 1:
                    fault = 0 if healthy_only else ex.choice(f"fault{k}", 3)
                    age = 0 * US if (healthy_only or fault != 0) else ex.td(f"age{k}", 0, 20_000_000)
                    ref["inv_ok"] = fault == 0 and ex.branch(EI(age) <= EI(MAXAGE))
                    yield Sel(inverter, inv_msg(fault, now - age))
                elif kind == 2:
                    ex.assume(EI(now) - EI(battery_timer.last_reset) >= EI(MAXAGE))  # a timer never fires early
                    battery_timer.last_reset = now
                    ref["bat_ok"] = False  # the battery stream has been silent for max_data_age
                    yield Sel(battery_timer, None)
                elif kind == 3:
                    ex.assume(EI(now) - EI(inverter_timer.last_reset) >= EI(MAXAGE))
                    inverter_timer.last_reset = now
                    ref["inv_ok"] = False
                    yield Sel(inverter_timer, None)
                elif kind == 4:  # the battery is among the succeeded components
                    ref["until"] = None
                    yield Sel(set_power_result, SetPowerResult(succeeded={9}, failed={7}))
                elif kind == 5:  # failed
                    if ref["status"] != St.NOT_WORKING:
                        if ref["until"] is None:
                            ref["dur"] = timedelta(seconds=1)
                            ref["until"] = now + ref["dur"]
                        elif ex.branch(EI(ref["until"]) > EI(now)):
                            pass
                        else:
                            ref["dur"] = min(2 * ref["dur"], MAXBLOCK)
                            ref["until"] = now + ref["dur"]
                    yield Sel(set_power_result, SetPowerResult(succeeded={7}, failed={9}))
                else:  # result that does not mention the battery
                    yield Sel(set_power_result, SetPowerResult(succeeded={7}, failed={6}))
                nsent_ref += int(ref_update_status())
                last = sent[-1] if sent else St.NOT_WORKING
                if reach:
                    if k == K - 1 and last == St.UNCERTAIN:
                        ex.check(False, "reach")
                    continue
                if last != St.NOT_WORKING and not (ref["bat_ok"] and ref["inv_ok"]):
                    ex.check(False, f"event {k}: reported {last.name} although battery_ok={ref['bat_ok']} inverter_ok={ref['inv_ok']} "
                                    "(latest message unhealthy/stale or stream silent for max_data_age)")
                ex.check(last == ref["status"], f"event {k}: reported {last.name}, expected {ref['status'].name}")
                ex.check(all(a != b for a, b in zip(sent, sent[1:])), "a notification was sent without a status change")
                ex.check(len(sent) == nsent_ref, f"event {k}: {len(sent)} notifications sent, {nsent_ref} status changes happened")
        Script.events = events
        coro = tr._run(Sender(), RES_RX)
        try:
            coro.send(None)
            raise core.HarnessError("tracker coroutine suspended unexpectedly")
        except Done:
            pass
        # pool view: uncertain components are used only when no working one is available
        if not reach:
            w = {9} if ref["status"] == St.WORKING else set()
            u = {9} if ref["status"] == St.UNCERTAIN else set()
            other = ex.flag("other_working")
            ps = ComponentPoolStatus(working=w | ({19} if other else set()), uncertain=u)
            got = ps.get_working_components({9, 19})
            exp = (w | ({19} if other else set())) or u
            ex.check(got == exp, "get_working_components: uncertain components must be used only as a fallback")
    return fn


def make_pool(K, reach=False):
    """ComponentPoolStatusTracker._update_status fed a symbolic sequence of per-battery status notifications for 2 batteries."""
    from frequenz.sdk.microgrid._power_distributing._component_pool_status_tracker import ComponentPoolStatusTracker
    from frequenz.sdk.microgrid._power_distributing._component_status import ComponentStatus
    import copy

    VALS = [St.NOT_WORKING, St.UNCERTAIN, St.WORKING]
    IDS = [9, 19]

    def fn(ex):
        msgs = [ComponentStatus(IDS[ex.choice(f"who{k}", 2)], VALS[ex.choice(f"status{k}", 3)]) for k in range(K)]
        sent = []

        class Sender:
            async def send(self, m):
                sent.append(copy.deepcopy(m))

        class Rx:
            def __aiter__(self):
                self.it = iter(msgs)
                return self

            async def __anext__(self):
                try:
                    return next(self.it)
                except StopIteration:
                    raise StopAsyncIteration from None
        t = ComponentPoolStatusTracker.__new__(ComponentPoolStatusTracker)
        t._current_status = ComponentPoolStatus(working=set(), uncertain=set())
        t._merged_status_receiver = Rx()
        t._component_status_sender = Sender()
        coro = t._update_status()
        try:
            coro.send(None)
            raise core.HarnessError("pool tracker suspended unexpectedly")
        except StopIteration:
            pass
        if reach:
            ex.check(False, "reach")
            return
        ex.check(len(sent) == K, "one pool status per component notification expected")
        ref = {}
        for k, (m, out) in enumerate(zip(msgs, sent)):
            ref[m.component_id] = m.value
            w = {i for i, v in ref.items() if v == St.WORKING}
            u = {i for i, v in ref.items() if v == St.UNCERTAIN}
            ex.check(out.working == w and out.uncertain == u, f"pool status after notification {k}: working={out.working} uncertain={out.uncertain}, expected {w} / {u}")
            for req in ({9}, {19}, {9, 19}):
                exp = (w & req) or (u & req)
                ex.check(out.get_working_components(req) == exp, f"get_working_components({req}) after notification {k}")
        ex.check(t.get_working_components({9, 19}) == ((w & {9, 19}) or (u & {9, 19})), "tracker.get_working_components")
    return fn


def make_pool_wiring(K, reach=False):
    """The real ComponentPoolStatusTracker (real constructor, real channels) with probe trackers: K set-power outcomes are published through
    update_status(), back to back or with the event loop running in between (symbolic), each naming battery 9 / 19 as succeeded, failed or
    not at all; every tracker must see every outcome, in order; statuses sent by the probes must be merged into the pool status."""
    import asyncio
    from datetime import timedelta
    from harness import fx
    from frequenz.channels import Broadcast
    from frequenz.sdk.actor import BackgroundService
    from frequenz.sdk.microgrid._power_distributing._component_pool_status_tracker import ComponentPoolStatusTracker
    from frequenz.sdk.microgrid._power_distributing._component_status import ComponentStatus, ComponentStatusTracker

    def fn(ex):
        probes = {}

        class Probe(ComponentStatusTracker, BackgroundService):
            def __init__(self, component_id, max_data_age, max_blocking_duration, status_sender, set_power_result_receiver):
                BackgroundService.__init__(self, name=f"probe{component_id}")
                self.cid, self.rx, self.tx, self.got = component_id, set_power_result_receiver, status_sender, []
                probes[component_id] = self

            def start(self):
                self._tasks.add(asyncio.create_task(self._watch()))

            async def _watch(self):
                async for r in self.rx:
                    self.got.append(r)
                    # like the real tracker: a failure makes the battery uncertain, a success working
                    if self.cid in r.failed:
                        await self.tx.send(ComponentStatus(self.cid, St.UNCERTAIN))
                    elif self.cid in r.succeeded:
                        await self.tx.send(ComponentStatus(self.cid, St.WORKING))
        outcomes = [{c: ["succeeded", "failed", "absent"][ex.choice(f"outcome{k}_{c}", 3)] for c in (9, 19)} for k in range(K)]
        gaps = [ex.flag(f"loop_runs_after{k}") for k in range(K - 1)]

        async def scenario():
            ch = Broadcast[ComponentPoolStatus](name="pool")
            rx = ch.new_receiver(limit=100)
            pool = ComponentPoolStatusTracker(component_ids={9, 19}, component_status_sender=ch.new_sender(), max_data_age=timedelta(seconds=10),
                                              max_blocking_duration=timedelta(seconds=30), component_status_tracker_type=Probe)
            await asyncio.sleep(0.1)
            for k, o in enumerate(outcomes):
                await pool.update_status({c for c in o if o[c] == "succeeded"}, {c for c in o if o[c] == "failed"})
                if k < K - 1 and gaps[k]:
                    await asyncio.sleep(0.1)
            await asyncio.sleep(1.0)
            last = None
            while True:
                try:
                    last = await asyncio.wait_for(rx.receive(), 0.01)
                except asyncio.TimeoutError:
                    break
            working = pool.get_working_components({9, 19})
            await pool.stop()
            return last, working
        last, working = fx.run_loop(scenario())
        if reach:
            ex.check(False, "reach")
            return
        for c in (9, 19):
            seen = [("failed" if c in r.failed else "succeeded" if c in r.succeeded else "absent") for r in probes[c].got]
            exp = [o[c] for o in outcomes]
            ex.check(seen == exp, f"tracker of battery {c} saw the outcomes {seen}, published were {exp}")
        state = {}
        for o in outcomes:
            for c in (9, 19):
                if o[c] != "absent":
                    state[c] = St.UNCERTAIN if o[c] == "failed" else St.WORKING
        w = {c for c, v in state.items() if v == St.WORKING}
        u = {c for c, v in state.items() if v == St.UNCERTAIN}
        if state:
            ex.check(last is not None and last.working == w and last.uncertain == u, f"pool status {last} after the outcomes, expected working={w} uncertain={u}")
        ex.check(working == (w or u), f"get_working_components = {working}, expected {w or u}")
    return fn


def instances(tier):
    I = Instance
    out = [I("reach:block3", "make", (3, True, True), "reachability twin (reaches UNCERTAIN)", budget_s=100, validate_every=0),
           I("events-3", "make", (3,), "3 arbitrary events", budget_s=200, validate_every=200),
           I("pool-wiring-3", "make_pool_wiring", (3,), "real ComponentPoolStatusTracker with probe trackers: 3 set-power outcomes published back to back or spaced, 2 batteries", budget_s=200, validate_every=50),
           I("pool-4", "make_pool", (4,), "ComponentPoolStatusTracker: every sequence of 4 status notifications from 2 batteries", budget_s=200, validate_every=50)]
    if tier == "quick":
        out += [I("events-4", "make", (4,), "4 arbitrary events", budget_s=600, validate_every=2000),
                I("blocking-5", "make", (5, True), "healthy fresh data, 5 events out of {message, success, failure, not mentioned}", budget_s=300, validate_every=500)]
    else:
        out += [I("events-4", "make", (4,), "4 arbitrary events", budget_s=900, validate_every=2000),
                I("events-5", "make", (5,), "5 arbitrary events (budgeted)", budget_s=1500, validate_every=20000, exhaustive=False),
                I("blocking-7", "make", (7, True), "healthy fresh data, 7 events (budgeted)", budget_s=900, validate_every=5000, exhaustive=False)]
    return out
