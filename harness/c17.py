"""C17 — power inside a pool's advertised bounds is never rejected as out of bounds."""
from __future__ import annotations

from harness.common import E, TS, z3, core, tolz, battery_data, inverter_data
from symx.runner import Instance

from frequenz.client.microgrid import ComponentMetricId as M
from frequenz.quantities import Power
from frequenz.sdk.timeseries.battery_pool._component_metrics import ComponentMetricsData
from frequenz.sdk.timeseries.battery_pool._metric_calculator import PowerBoundsCalculator
from frequenz.sdk.microgrid._power_distributing._component_managers._battery_manager import BatteryManager
from frequenz.sdk.microgrid._power_distributing._distribution_algorithm import (
    AggregatedBatteryData, InvBatPair, BatteryDistributionAlgorithm)
from frequenz.sdk.microgrid._power_distributing.request import Request

ID = "C17"
LEVEL = "model_checking"
FUNCTIONS = [
    "PowerBoundsCalculator.calculate", "_aggregate_battery_power_bounds", "BatteryManager._get_bounds", "BatteryManager._check_request",
    "SystemBounds.__contains__", "Bounds.__contains__", "AggregatedBatteryData.__init__",
    "BatteryDistributionAlgorithm._inclusion_exclusion_bounds", "_compute_battery_availability_ratio (min_power)",
]
SHIMS = ["math.isclose dispatch on proxies", "PowerBoundsCalculator built by its real constructor (component-graph lookup replaced by the harness topology), BatteryManager built with __new__ + the attributes the encoded methods read "
         "(no component graph / API client needed)"]
ASSUMPTIONS = [
    "exact reals", "per component incl_lower <= excl_lower <= 0 <= excl_upper <= incl_upper", "complete data for every component (the property says 'same complete data')",
    "admissibility antecedent stated declaratively on the calculator's output: il <= P <= iu and (P <= el or P >= eu), P != 0 "
    "(weaker than SystemBounds.__contains__, which treats the exclusion bounds themselves as excluded; both are checked)",
]
BOUNDS = {"quick": "topologies (batteries x inverters per group): 1x1, 2 groups of 1x1, 2x1 (shared inverter), 1x2 (shared battery), mixed (2x1 | 1x2); adjust_power True and False",
          "thorough": "quick + 3 groups of 1x1, (2x2)"}
OUTSIDE = "more than 3 groups, more than 2 batteries/inverters per group; missing metrics; IEEE rounding"
BUDGET = {"quick": 600, "thorough": 1200}

BM = [M.POWER_INCLUSION_LOWER_BOUND, M.POWER_EXCLUSION_LOWER_BOUND, M.POWER_EXCLUSION_UPPER_BOUND, M.POWER_INCLUSION_UPPER_BOUND]
IM = [M.ACTIVE_POWER_INCLUSION_LOWER_BOUND, M.ACTIVE_POWER_EXCLUSION_LOWER_BOUND, M.ACTIVE_POWER_EXCLUSION_UPPER_BOUND, M.ACTIVE_POWER_INCLUSION_UPPER_BOUND]


def make(shape, adjust, clause="admit", reach=False, history=False):
    """history: the same calculator instance has computed bounds before, for OTHER symbolic data of the same components carrying the
    same timestamps (components stamp their own messages; equal or older stamps across components are normal)."""
    import frequenz.sdk.timeseries.battery_pool._metric_calculator as mc
    shape = tuple(tuple(s) for s in shape)

    def fn(ex):
        groups = []
        bd, idt = {}, {}
        for g, (nb, ni) in enumerate(shape):
            bats = [100 * g + b for b in range(nb)]
            invs = [100 * g + 50 + i for i in range(ni)]
            groups.append((bats, invs))
            for c in bats + invs:
                v = [ex.real(f"c{c}_{k}") for k in ("il", "el", "eu", "iu")]
                ex.assume(z3.And(E(v[0]) <= E(v[1]), E(v[1]) <= 0, 0 <= E(v[2]), E(v[2]) <= E(v[3])))
                (bd if c in bats else idt)[c] = v
        # the real constructor, with the component-graph lookup replaced by the harness topology
        real_map = mc._get_battery_inverter_mappings
        mc._get_battery_inverter_mappings = lambda batteries, **kw: {
            "bat_invs": {b: frozenset(invs) for bats, invs in groups for b in bats},
            "bat_bats": {b: frozenset(bats) for bats, invs in groups for b in bats}}
        try:
            calc = PowerBoundsCalculator(frozenset(bd))
        finally:
            mc._get_battery_inverter_mappings = real_map
        if history:
            md0 = {}
            for c in list(bd) + list(idt):
                v0 = [ex.real(f"old{c}_{k}") for k in ("il", "el", "eu", "iu")]
                ex.assume(z3.And(E(v0[0]) <= E(v0[1]), E(v0[1]) <= 0, 0 <= E(v0[2]), E(v0[2]) <= E(v0[3])))
                md0[c] = ComponentMetricsData(c, TS, dict(zip(BM if c in bd else IM, v0)))
            calc.calculate(md0, set(bd))
        md = {}
        for b, v in bd.items():
            md[b] = ComponentMetricsData(b, TS, dict(zip(BM, v)))
        for i, v in idt.items():
            md[i] = ComponentMetricsData(i, TS, dict(zip(IM, v)))
        sb = calc.calculate(md, set(bd))
        pairs = []
        for bats, invs in groups:
            bl = [battery_data(b, capacity=10.0, soc=50.0, soc_lower_bound=10.0, soc_upper_bound=90.0,
                               power_inclusion_lower_bound=bd[b][0], power_exclusion_lower_bound=bd[b][1],
                               power_exclusion_upper_bound=bd[b][2], power_inclusion_upper_bound=bd[b][3]) for b in bats]
            il = [inverter_data(i, active_power_inclusion_lower_bound=idt[i][0], active_power_exclusion_lower_bound=idt[i][1],
                                active_power_exclusion_upper_bound=idt[i][2], active_power_inclusion_upper_bound=idt[i][3]) for i in invs]
            pairs.append(InvBatPair(AggregatedBatteryData(bl), il))
        mgr = BatteryManager.__new__(BatteryManager)
        mgr._battery_caches = {b: None for b in bd}
        P = ex.real("P")
        ex.assume(E(P) != 0)
        ail, aiu = E(sb.inclusion_bounds.lower.as_watts()), E(sb.inclusion_bounds.upper.as_watts())
        ael, aeu = E(sb.exclusion_bounds.lower.as_watts()), E(sb.exclusion_bounds.upper.as_watts())
        ex.observe("advertised", [sb.inclusion_bounds.lower.as_watts(), sb.exclusion_bounds.lower.as_watts(),
                                  sb.exclusion_bounds.upper.as_watts(), sb.inclusion_bounds.upper.as_watts()])
        enf = mgr._get_bounds(pairs)
        ex.check(z3.And(E(enf.inclusion_lower) == ail, E(enf.inclusion_upper) == aiu), "advertised and enforced inclusion bounds differ")
        contained = Power.from_watts(P) in sb
        admissible = z3.And(ail <= E(P), E(P) <= aiu, z3.Or(E(P) <= ael, E(P) >= aeu))
        if contained:
            ex.check(admissible, "SystemBounds.__contains__ accepts a power outside the advertised bounds")
        ex.assume(admissible)
        if reach:
            ex.check(False, "reach")
            return
        if clause == "admit":
            res = mgr._check_request(Request(power=Power.from_watts(P), component_ids=set(bd), adjust_power=adjust), pairs)
            ex.check(res is None, f"advertised-admissible power rejected: {type(res).__name__}")
            return
        # distributable: |P| >= sum of the groups' minimum powers (as the real algorithm computes them)
        alg = BatteryDistributionAlgorithm(1.0)
        supply = ex.branch(E(P) < 0)
        incl, excl = alg._inclusion_exclusion_bounds(pairs, supply=supply)
        ratios, _tot = alg._compute_battery_availability_ratio(pairs, {p.battery.component_id: 1.0 for p in pairs}, excl)
        smin = sum(E(r.min_power) for r in ratios)
        ex.check(core.zabs(E(P)) >= smin - tolz(E(P)), "admissible power is below the sum of the groups' minimum powers")
    return fn


def instances(tier):
    I = Instance
    kw = dict(validate_every=200)
    shapes = {"1x1": ((1, 1),), "2x(1x1)": ((1, 1), (1, 1)), "2bat1inv": ((2, 1),), "1bat2inv": ((1, 2),), "mixed": ((2, 1), (1, 2))}
    out = [I("reach:1x1", "make", (shapes["1x1"], True, "admit", True), "reachability twin", budget_s=60, validate_every=0)]
    for n, sh in shapes.items():
        for adj in (True, False):
            out.append(I(f"{n}-admit-adjust{int(adj)}", "make", (sh, adj, "admit"), f"topology {n}, adjust_power={adj}: admission + inclusion equality", budget_s=300, **kw))
        if n != "mixed" or tier != "quick":
            out.append(I(f"{n}-minpower", "make", (sh, True, "minpower"), f"topology {n}: admissible power >= sum of group minimum powers",
                         budget_s=300 if n != "mixed" else 900, exhaustive=(n != "mixed"), **kw))
    for n in ("1x1", "2x(1x1)"):
        out.append(I(f"{n}-admit-history", "make", (shapes[n], True, "admit", False, True),
                     f"topology {n}: the calculator instance computed bounds for other data with the same timestamps before" + ("" if n == "1x1" else " (budgeted)"),
                     budget_s=300 if n == "1x1" else 100, exhaustive=(n == "1x1"), **kw))
    if tier != "quick":
        for n, sh in {"3x(1x1)": ((1, 1),) * 3, "2x2": ((2, 2),), "2x(2x1)": ((2, 1), (2, 1))}.items():
            for adj in (True, False):
                out.append(I(f"{n}-admit-adjust{int(adj)}", "make", (sh, adj, "admit"), f"topology {n}, adjust_power={adj}", budget_s=600, dump_queries=10, exhaustive=False, **kw))
    return out
