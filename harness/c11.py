"""C11 — distributed power = regular target + operating-point target, in bounds."""
from __future__ import annotations

from datetime import timedelta

from harness.common import E, TS, z3, core, tolz
from harness import fx
from symx.runner import Instance

from frequenz.channels import Broadcast
from frequenz.client.microgrid import ComponentCategory
from frequenz.quantities import Power
from frequenz.sdk._internal._channels import ChannelRegistry
from frequenz.sdk.timeseries._base_types import Bounds, SystemBounds
from frequenz.sdk.microgrid._power_managing._power_managing_actor import PowerManagingActor
from frequenz.sdk.microgrid._power_managing._base_classes import Proposal
from frequenz.sdk.microgrid import _power_distributing as pd

ID = "C11"
LEVEL = "model_checking"
FUNCTIONS = ["PowerManagingActor._calculate_target_power", "_calculate_shifted_bounds", "_send_updated_target_power", "_send_reports", "_bounds_tracker body",
             "result-handling branch of _run (PartialFailure -> resend)", "Matryoshka.calculate_target_power/get_status/get_target_power/drop_old_proposals (both groups)"]
SHIMS = ["actor constructed normally; _system_bounds/_bound_tracker_tasks pre-seeded so that no data pipeline is needed; request and report senders are recorders",
         "events are applied through the real handlers in the order the real _run / _bounds_tracker call them", "math.isclose dispatch on proxies"]
ASSUMPTIONS = ["exact reals", "system bounds lower <= 0 <= upper at every update; no exclusion zone in quick (present in thorough)",
               "every power and bound of every proposal is symbolic, each field present or None by a symbolic flag",
               "a distribution result is Success or PartialFailure for the last request; proposal expiry is modelled by drop_old_proposals(t) with a symbolic loop time"]
BOUNDS = {"quick": "every sequence of <= 2 events out of {regular proposal, operating-point proposal, bounds update} with every None pattern, every sequence of 3 events "
                   "containing a bounds update (proposals fully specified); 1 regular and 1 operating-point actor; plus sequences with a PartialFailure result or an expiry step",
          "thorough": "+ all 3-proposal sequences, exclusion zone, every None pattern for 3 events (budgeted)"}
OUTSIDE = "more actors/priorities; the real select loop and channels (handlers are called directly); several component groups"
BUDGET = {"quick": 1500, "thorough": 1800}
IDS = frozenset({1})
W = Power.from_watts


class Rec:
    def __init__(self):
        self.msgs = []

    async def send(self, m):
        self.msgs.append(m)


def sysb(lo, hi, el=None, eu=None):
    return SystemBounds(timestamp=TS, inclusion_bounds=Bounds(W(lo), W(hi)), exclusion_bounds=None if el is None else Bounds(W(el), W(eu)))


def prop(ex, tag, prio, op, ct=0.0, shape=None):
    def o(n, letter):
        present = ex.flag("has_" + n + tag) if shape is None else (letter in shape)
        return W(ex.real(n + tag)) if present else None
    return Proposal(source_id=tag, preferred_power=o("p", "p"), bounds=Bounds(o("l", "l"), o("u", "u")), component_ids=IDS, priority=prio, creation_time=ct,
                    set_operating_point=op)


def make(seq, excl=False, shape=None, reach=False):
    """seq: tuple of events: 'reg', 'op', 'bounds', 'partial' (PartialFailure result for the last request), 'expire' (drop_old_proposals with symbolic time)"""
    def fn(ex):
        async def scenario():
            req = Rec()
            a = PowerManagingActor(Broadcast[Proposal](name="p").new_receiver(), Broadcast(name="s").new_receiver(), req,
                                   Broadcast[pd.Result](name="x").new_receiver(), ChannelRegistry(name="reg"), component_category=ComponentCategory.BATTERY)
            reg_rep, op_rep = Rec(), Rec()
            a._set_power_subscriptions[IDS] = {1: reg_rep}
            a._set_op_power_subscriptions[IDS] = {1: op_rep}
            a._bound_tracker_tasks[IDS] = None

            def new_bounds(k):
                il, iu = ex.real(f"il{k}"), ex.real(f"iu{k}")
                ex.assume(z3.And(E(il) <= 0, 0 <= E(iu)))
                if excl:
                    el, eu = ex.real(f"el{k}"), ex.real(f"eu{k}")
                    ex.assume(z3.And(E(il) <= E(el), E(el) <= 0, 0 <= E(eu), E(eu) <= E(iu)))
                    return sysb(il, iu, el, eu), (il, iu)
                return sysb(il, iu), (il, iu)
            a._system_bounds[IDS], cur = new_bounds("0")
            last_partial = False
            history = []  # (proposal, creation time) in arrival order
            last_expire = None
            for k, ev in enumerate(seq):
                n0 = len(req.msgs)
                if ev in ("reg", "op"):
                    p = prop(ex, f"{ev[0]}{k}", 1, ev == "op", float(k), shape)
                    history.append(p)
                    await a._send_updated_target_power(IDS, p, must_send=True)
                    await a._send_reports(IDS)
                elif ev == "bounds":
                    a._system_bounds[IDS], cur = new_bounds(str(k + 1))
                    await a._send_updated_target_power(IDS, None)
                    await a._send_reports(IDS)
                elif ev == "partial":
                    if req.msgs and not last_partial:
                        last_partial = True
                        await a._send_updated_target_power(IDS, None, must_send=True)
                    await a._send_reports(IDS)
                elif ev == "expire":
                    t = ex.real(f"looptime{k}")
                    ex.assume(E(t) >= k)
                    a._set_power_group.drop_old_proposals(t)
                    a._set_op_power_group.drop_old_proposals(t)
                    last_expire = t
                    # the next bounds update / proposal recomputes; the real loop does nothing else on the timer
                    continue
                for r in req.msgs[n0:]:
                    treg = reg_rep.msgs[-1].target_power if reg_rep.msgs else None
                    top = op_rep.msgs[-1].target_power if op_rep.msgs else None
                    tot = (E(treg.as_watts()) if treg is not None else 0) + (E(top.as_watts()) if top is not None else 0)
                    rp = E(r.power.as_watts())
                    ex.observe(f"request{k}", r.power.as_watts())
                    if reach:
                        if k == len(seq) - 1:
                            ex.check(False, "reach")
                        continue
                    ex.check(rp == tot, f"event {k} ({ev}): request != regular target + operating-point target as reported")
                    ex.check(z3.And(E(cur[0]) <= rp, rp <= E(cur[1])), f"event {k} ({ev}): request outside the latest system inclusion bounds")
            if last_expire is not None and not reach and seq[-1] != "expire":
                # expiry: a group whose proposals have all expired must contribute 0 W once the targets have been recomputed
                # (proposals older than the maximum age stop counting); cross-group ordering effects are NOT asserted here.
                latest = {}
                for p in history:
                    latest[(p.set_operating_point, p.source_id[0], p.priority)] = p
                for is_op, grp in ((False, a._set_power_group), (True, a._set_op_power_group)):
                    mine = [p for key, p in latest.items() if key[0] == is_op]
                    if mine and not any(ex.branch(E(last_expire) - E(p.creation_time) <= 60) for p in mine):
                        t = grp.get_target_power(IDS)
                        ex.check(t is None or bool(t.as_watts() == 0), "a group whose proposals have all expired still contributes a non-zero target")
        fx.run_loop(scenario())
    return fn


def instances(tier):
    import itertools

    I = Instance
    out = [I("reach:reg-op", "make", (("reg", "op"), False, None, True), "reachability twin", budget_s=60, validate_every=0)]
    seqs = []
    for n in (1, 2, 3):
        for s in itertools.product(("reg", "op", "bounds"), repeat=n):
            if any(e != "bounds" for e in s):
                seqs.append(s)
    typ = "pl"  # proposals carry a preference and a lower bound... keep the None patterns small for 3-event sequences
    for s in seqs:
        if tier == "quick" and len(s) == 3 and "bounds" not in s:
            continue  # three proposals without a bounds update: every step recomputes both groups (thorough)
        full = len(s) <= 2
        out.append(I("-".join(s), "make", (s, False, None if full else "plu"),
                     f"events {s}; " + ("every None pattern" if full else "proposals fully specified (preference + both bounds)"),
                     budget_s=300, validate_every=200))
    extra = [("reg", "op", "partial"), ("reg", "op", "bounds", "partial"), ("reg", "op", "expire", "bounds")]
    if tier != "quick":
        extra.append(("op", "reg", "expire", "reg"))
    for s in extra:
        out.append(I("-".join(s), "make", (s, False, "plu"), f"events {s}; proposals fully specified", budget_s=300, validate_every=200))
    if tier != "quick":
        for s in (("reg", "op", "bounds"), ("op", "reg", "bounds"), ("reg", "bounds", "op"), ("reg", "op", "bounds", "bounds"), ("reg", "op", "reg", "bounds")):
            out.append(I("excl:" + "-".join(s), "make", (s, True, "plu"), f"events {s} with an exclusion zone (budgeted)", budget_s=600, validate_every=2000, exhaustive=False))
        for s in (("reg", "op", "bounds"), ("op", "reg", "bounds")):
            out.append(I("any:" + "-".join(s), "make", (s, False, None), f"events {s}, every None pattern (budgeted)", budget_s=900, validate_every=2000, exhaustive=False))
    return out
