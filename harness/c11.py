"""C11 — distributed power = regular target + operating-point target, in bounds."""
from __future__ import annotations

from datetime import timedelta

from harness.common import E, TS, z3, core, tolz
from harness import fx
from symx.runner import Instance

from frequenz.channels import Broadcast
from frequenz.client.microgrid import ComponentCategory
from frequenz.quantities import Power
from frequenz.sdk._internal._channels import ChannelRegistry
from frequenz.sdk.timeseries._base_types import Bounds, SystemBounds
from frequenz.sdk.microgrid._power_managing._power_managing_actor import PowerManagingActor
from frequenz.sdk.microgrid._power_managing._base_classes import Proposal
from frequenz.sdk.microgrid import _power_distributing as pd

ID = "C11"
LEVEL = "model_checking"
FUNCTIONS = ["PowerManagingActor._calculate_target_power", "_calculate_shifted_bounds", "_send_updated_target_power", "_send_reports", "_bounds_tracker body",
             "result-handling branch of _run (PartialFailure -> resend)", "Matryoshka.calculate_target_power/get_status/get_target_power/drop_old_proposals (both groups)"]
SHIMS = ["'run:' instances: the real actor is started and fed through real frequenz.channels; only _add_system_bounds_tracker is overridden to read bounds from a harness channel instead of building a battery pool", "other instances: actor constructed normally; _system_bounds/_bound_tracker_tasks pre-seeded so that no data pipeline is needed; request and report senders are recorders",
         "events are applied through the real handlers in the order the real _run / _bounds_tracker call them", "math.isclose dispatch on proxies"]
ASSUMPTIONS = ["exact reals", "system bounds lower <= 0 <= upper at every update; no exclusion zone in quick (present in thorough)",
               "every power and bound of every proposal is symbolic, each field present or None by a symbolic flag",
               "a distribution result is Success or PartialFailure for the last request; proposal expiry is modelled by drop_old_proposals(t) with a symbolic loop time"]
BOUNDS = {"quick": "every sequence of <= 2 events out of {regular proposal, operating-point proposal, bounds update} with every None pattern, every sequence of 3 events "
                   "containing a bounds update (proposals fully specified); 1 regular and 1 operating-point actor; plus sequences with a PartialFailure result or an expiry step",
          "thorough": "+ all 3-proposal sequences, exclusion zone, every None pattern for 3 events (budgeted)"}
OUTSIDE = "more actors/priorities; the real select loop and channels (handlers are called directly); several component groups"
BUDGET = {"quick": 1500, "thorough": 1800}
IDS = frozenset({1})
W = Power.from_watts


class Rec:
    def __init__(self):
        self.msgs = []

    async def send(self, m):
        self.msgs.append(m)


def sysb(lo, hi, el=None, eu=None):
    return SystemBounds(timestamp=TS, inclusion_bounds=Bounds(W(lo), W(hi)), exclusion_bounds=None if el is None else Bounds(W(el), W(eu)))


def prop(ex, tag, prio, op, ct=0.0, shape=None):
    def o(n, letter):
        present = ex.flag("has_" + n + tag) if shape is None else (letter in shape)
        return W(ex.real(n + tag)) if present else None
    return Proposal(source_id=tag, preferred_power=o("p", "p"), bounds=Bounds(o("l", "l"), o("u", "u")), component_ids=IDS, priority=prio, creation_time=ct,
                    set_operating_point=op)


def make(seq, excl=False, shape=None, reach=False):
    """seq: tuple of events: 'reg', 'op', 'bounds', 'partial' (PartialFailure result for the last request), 'expire' (drop_old_proposals with symbolic time)"""
    def fn(ex):
        async def scenario():
            req = Rec()
            a = PowerManagingActor(Broadcast[Proposal](name="p").new_receiver(), Broadcast(name="s").new_receiver(), req,
                                   Broadcast[pd.Result](name="x").new_receiver(), ChannelRegistry(name="reg"), component_category=ComponentCategory.BATTERY)
            reg_rep, op_rep = Rec(), Rec()
            a._set_power_subscriptions[IDS] = {1: reg_rep}
            a._set_op_power_subscriptions[IDS] = {1: op_rep}
            a._bound_tracker_tasks[IDS] = None

            def new_bounds(k):
                il, iu = ex.real(f"il{k}"), ex.real(f"iu{k}")
                ex.assume(z3.And(E(il) <= 0, 0 <= E(iu)))
                if excl:
                    el, eu = ex.real(f"el{k}"), ex.real(f"eu{k}")
                    ex.assume(z3.And(E(il) <= E(el), E(el) <= 0, 0 <= E(eu), E(eu) <= E(iu)))
                    return sysb(il, iu, el, eu), (il, iu)
                return sysb(il, iu), (il, iu)
            a._system_bounds[IDS], cur = new_bounds("0")
            last_partial = False
            history = []  # (proposal, creation time) in arrival order
            last_expire = None
            k_expire = None
            arrival = {}
            for k, ev in enumerate(seq):
                n0 = len(req.msgs)
                if ev in ("reg", "op"):
                    p = prop(ex, f"{ev[0]}{k}", 1, ev == "op", float(k), shape)
                    history.append(p)
                    arrival[id(p)] = k
                    await a._send_updated_target_power(IDS, p, must_send=True)
                    await a._send_reports(IDS)
                elif ev == "bounds":
                    a._system_bounds[IDS], cur = new_bounds(str(k + 1))
                    await a._send_updated_target_power(IDS, None)
                    await a._send_reports(IDS)
                elif ev == "partial":
                    if req.msgs and not last_partial:
                        last_partial = True
                        await a._send_updated_target_power(IDS, None, must_send=True)
                    await a._send_reports(IDS)
                elif ev == "expire":
                    t = ex.real(f"looptime{k}")
                    ex.assume(E(t) >= k)
                    a._set_power_group.drop_old_proposals(t)
                    a._set_op_power_group.drop_old_proposals(t)
                    last_expire = t
                    k_expire = k
                    # the next bounds update / proposal recomputes; the real loop does nothing else on the timer
                    continue
                for r in req.msgs[n0:]:
                    treg = reg_rep.msgs[-1].target_power if reg_rep.msgs else None
                    top = op_rep.msgs[-1].target_power if op_rep.msgs else None
                    tot = (E(treg.as_watts()) if treg is not None else 0) + (E(top.as_watts()) if top is not None else 0)
                    rp = E(r.power.as_watts())
                    ex.observe(f"request{k}", r.power.as_watts())
                    if reach:
                        if k == len(seq) - 1:
                            ex.check(False, "reach")
                        continue
                    ex.check(rp == tot, f"event {k} ({ev}): request != regular target + operating-point target as reported")
                    ex.check(z3.And(E(cur[0]) <= rp, rp <= E(cur[1])), f"event {k} ({ev}): request outside the latest system inclusion bounds")
            if last_expire is not None and not reach and seq[-1] != "expire":
                # expiry: a group whose proposals have all expired must contribute 0 W once the targets have been recomputed
                # (proposals older than the maximum age stop counting); cross-group ordering effects are NOT asserted here.
                latest = {}
                for p in history:
                    latest[(p.set_operating_point, p.source_id[0], p.priority)] = p
                for is_op, grp in ((False, a._set_power_group), (True, a._set_op_power_group)):
                    mine = [p for key, p in latest.items() if key[0] == is_op]
                    if any(arrival[id(p)] > k_expire for p in mine):
                        continue   # a proposal that arrived after the expiry sweep is live (its nominal creation time k is only a label)
                    if mine and not any(ex.branch(E(last_expire) - E(p.creation_time) <= 60) for p in mine):
                        t = grp.get_target_power(IDS)
                        ex.check(t is None or bool(t.as_watts() == 0), "a group whose proposals have all expired still contributes a non-zero target")
        fx.run_loop(scenario())
    return fn


def make_run(seq, shape="plu", reach=False, op_prio=2):
    """The same events, but delivered through real channels to the real PowerManagingActor._run select loop and the real
    _bounds_tracker task (only the construction of the battery pool in _add_system_bounds_tracker is replaced by a harness
    bounds channel).  Extra events: 'stale_partial' = PartialFailure for the FIRST request that was sent (arriving late),
    'success', 'sleep62' (every proposal made so far expires through the real 1 s timer), 'sleep31' (two of them expire what was
    proposed before the first, not what was proposed in between)."""
    import asyncio
    from frequenz.sdk.microgrid._power_managing._base_classes import ReportRequest, _Report

    def fn(ex):
        async def scenario():
            prop_ch = Broadcast[Proposal](name="proposals")
            sub_ch = Broadcast[ReportRequest](name="subs")
            req_ch = Broadcast[pd.Request](name="requests")
            res_ch = Broadcast[pd.Result](name="results")
            bounds_ch = Broadcast[SystemBounds](name="bounds")
            registry = ChannelRegistry(name="reg")

            class A(PowerManagingActor):
                def _add_system_bounds_tracker(self, component_ids):
                    self._system_bounds[component_ids] = SystemBounds(timestamp=TS, inclusion_bounds=None, exclusion_bounds=None)
                    self._bound_tracker_tasks[component_ids] = asyncio.create_task(self._bounds_tracker(component_ids, bounds_ch.new_receiver(limit=100)))
            a = A(prop_ch.new_receiver(limit=100), sub_ch.new_receiver(limit=100), req_ch.new_sender(), res_ch.new_receiver(limit=100), registry,
                  component_category=ComponentCategory.BATTERY)
            req_rx = req_ch.new_receiver(limit=100)
            a.start()
            subs = sub_ch.new_sender()
            rr_reg = ReportRequest(source_id="r", component_ids=IDS, priority=1, set_operating_point=False)
            rr_op = ReportRequest(source_id="o", component_ids=IDS, priority=op_prio, set_operating_point=True)
            reg_rx = registry.get_or_create(_Report, rr_reg.get_channel_name()).new_receiver(limit=100)
            op_rx = registry.get_or_create(_Report, rr_op.get_channel_name()).new_receiver(limit=100)
            await subs.send(rr_reg)
            await subs.send(rr_op)
            await asyncio.sleep(0.01)
            bsend, psend, rsend = bounds_ch.new_sender(), prop_ch.new_sender(), res_ch.new_sender()

            def new_bounds(k):
                il, iu = ex.real(f"il{k}"), ex.real(f"iu{k}")
                ex.assume(z3.And(E(il) <= 0, 0 <= E(iu)))
                return sysb(il, iu), (il, iu)
            b0, cur = new_bounds("0")
            await bsend.send(b0)
            await asyncio.sleep(0.01)

            last_reg = last_op = None
            all_requests = []
            for k, ev in enumerate(seq):
                if ev in ("reg", "op"):
                    now = asyncio.get_running_loop().time()
                    await psend.send(prop(ex, f"{ev[0]}{k}", op_prio if ev == "op" else 1, ev == "op", now, shape))
                elif ev == "bounds":
                    b, cur = new_bounds(str(k + 1))
                    await bsend.send(b)
                elif ev in ("stale_partial", "partial") and all_requests:
                    r = all_requests[0] if ev == "stale_partial" else all_requests[-1]
                    await rsend.send(pd.PartialFailure(request=r, succeeded_power=Power.zero(), succeeded_components=set(), failed_power=r.power,
                                                       failed_components=set(IDS), excess_power=Power.zero()))
                elif ev == "success" and all_requests:
                    r = all_requests[-1]
                    await rsend.send(pd.Success(request=r, succeeded_power=r.power, succeeded_components=set(IDS), excess_power=Power.zero()))
                elif ev in ("sleep62", "sleep31"):
                    # whatever the expiry timer sends during the sleep is checked like any other request, right after it
                    await asyncio.sleep(62.0 if ev == "sleep62" else 31.0)
                await asyncio.sleep(0.01)
                new_reqs = await _take(req_rx)
                for m in await _take(reg_rx):
                    last_reg = m
                for m in await _take(op_rx):
                    last_op = m
                all_requests.extend(new_reqs)
                for r in new_reqs:
                    treg = last_reg.target_power if last_reg is not None else None
                    top = last_op.target_power if last_op is not None else None
                    tot = (E(treg.as_watts()) if treg is not None else 0) + (E(top.as_watts()) if top is not None else 0)
                    rp = E(r.power.as_watts())
                    if reach:
                        if k == len(seq) - 1:
                            ex.check(False, "reach")
                        continue
                    ex.check(rp == tot, f"event {k} ({ev}): request != regular target + operating-point target as reported after the event")
                    ex.check(z3.And(E(cur[0]) <= rp, rp <= E(cur[1])), f"event {k} ({ev}): request outside the latest system inclusion bounds")
            await a.stop()

        async def _take(rx):
            import asyncio as _a
            out = []
            while True:
                try:
                    out.append(await _a.wait_for(rx.receive(), 0.001))
                except _a.TimeoutError:
                    return out
        fx.run_loop(scenario())
    return fn


def instances(tier):
    import itertools

    I = Instance
    out = [I("reach:reg-op", "make", (("reg", "op"), False, None, True), "reachability twin", budget_s=60, validate_every=0)]
    seqs = []
    for n in (1, 2, 3):
        for s in itertools.product(("reg", "op", "bounds"), repeat=n):
            if any(e != "bounds" for e in s):
                seqs.append(s)
    typ = "pl"  # proposals carry a preference and a lower bound... keep the None patterns small for 3-event sequences
    for s in seqs:
        if tier == "quick" and len(s) == 3 and "bounds" not in s:
            continue  # three proposals without a bounds update: every step recomputes both groups (thorough)
        full = len(s) <= 2
        out.append(I("-".join(s), "make", (s, False, None if full else "plu"),
                     f"events {s}; " + ("every None pattern" if full else "proposals fully specified (preference + both bounds)"),
                     budget_s=300, validate_every=200))
    extra = [("reg", "op", "partial"), ("reg", "op", "expire", "bounds")]
    if tier != "quick":
        extra += [("op", "reg", "expire", "reg"), ("reg", "op", "bounds", "partial")]
    for s in extra:
        out.append(I("-".join(s), "make", (s, False, "plu"), f"events {s}; proposals fully specified", budget_s=300, validate_every=200))
    runs = [("reg", "op", "bounds"), ("op", "reg", "bounds"), ("reg", "op", "bounds", "stale_partial"),
            ("reg", "op", "sleep62", "bounds"), ("reg", "bounds", "op", "partial"), ("reg", "sleep31", "op", "sleep31", "bounds")]
    if tier != "quick":
        runs += [("reg", "op", "reg", "stale_partial"), ("reg", "op", "success", "bounds"), ("op", "reg", "bounds", "bounds")]
    out.append(I("run:reg-op-bounds-same-priority", "make_run", (("reg", "op", "bounds"), "plu", False, 1),
                 "real _run loop; the regular actor and the operating-point actor have the SAME priority", budget_s=200, validate_every=500))
    for s in runs:
        out.append(I("run:" + "-".join(s), "make_run", (s,), f"real _run loop and _bounds_tracker over channels, events {s}; proposals fully specified",
                     budget_s=300, validate_every=500))
    if tier != "quick":
        for s in (("reg", "op", "bounds"), ("op", "reg", "bounds"), ("reg", "bounds", "op"), ("reg", "op", "bounds", "bounds"), ("reg", "op", "reg", "bounds")):
            out.append(I("excl:" + "-".join(s), "make", (s, True, "plu"), f"events {s} with an exclusion zone (budgeted)", budget_s=600, validate_every=2000, exhaustive=False))
        for s in (("reg", "op", "bounds"), ("op", "reg", "bounds")):
            out.append(I("any:" + "-".join(s), "make", (s, False, None), f"events {s}, every None pattern (budgeted)", budget_s=900, validate_every=2000, exhaustive=False))
    return out
