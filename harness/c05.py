"""C05 — formula output equals the arithmetic value of the expression (translation validation per program)."""
from __future__ import annotations

import random

from harness.common import E, z3, core
from harness import fx
from harness.fx import Power
from symx.runner import Instance

ID = "C05"
LEVEL = "translation_validation"
install = fx.install
FUNCTIONS = [
    "Tokenizer", "ResampledFormulaBuilder.from_string/push_component_metric", "FormulaBuilder.push_oper/push_metric/push_constant/push_clipper/build (shunting yard, _operator_precedence)",
    "FormulaEngine.__add__/__sub__/__mul__/__truediv__/max/min/consumption/production/from_receiver", "HigherOrderFormulaBuilder._push/build",
    "FormulaEngine._run / new_receiver", "FormulaEvaluator.apply / _synchronize_metric_timestamps", "every FormulaStep.apply", "MetricFetcher.fetch_next/apply",
]
SHIMS = fx.SHIMS
ASSUMPTIONS = [
    "programs are ENUMERATED (concrete); input values are symbolic reals; the reference is Python's own evaluation of the same expression on the same values "
    "(ordinary precedence, parentheses, left-to-right associativity)",
    "paths on which the reference divides by zero belong to C13 and are skipped here",
    "exact reals (outputs compared with 1e-9 relative tolerance)", "one sample per input, all stamped with the same timestamp",
]
BOUNDS = {
    "quick": "strings: every tree with <= 4 operands over + - * /, rendered minimally, fully parenthesised, with odd whitespace and with redundant parentheses, "
             "5 operands over {+,-,*} and over {-,/}; operator API: every tree with <= 3 operands over + - * / max min, repeated operands, "
             "consumption/production wrappers, Quantity/float constants, 4 operands over {+,-,*} and over {-,/,max}",
    "thorough": "every string with <= 5 operands (15 763 programs) and every API tree with <= 4 operands (1 652); seeded samples of 6-operand (4000) and 7-operand (2000) strings and of "
                "5-operand (4000) and 6-operand (2000) API trees (the only sampled element); instances that run out of budget are reported as such",
}
OUTSIDE = "larger expressions; 3-phase engines; IEEE rounding; several timestamps (C06)"
BUDGET = {"quick": 600, "thorough": 2000}

_cache = {}


def programs(family, nmax, seed=0):
    key = (family, nmax, seed)
    if key in _cache:
        return _cache[key]
    out = []
    if family == "str":
        seen = set()
        for n in range(1, nmax + 1):
            for t in fx.shapes(list(range(n)), fx.BIN_STR):
                for style in (0, 1, 2, 3):
                    s = fx.render(t, style)
                    if s not in seen:
                        seen.add(s)
                        out.append(("str", t, s, n))
    elif family == "api":
        for n in range(2, nmax + 1):
            for t in fx.shapes(list(range(n)), fx.BIN_API):
                out.append(("api", t, fx.show(t), n))
        # the same engine used twice
        for t in fx.shapes([0, 1, 0], fx.BIN_API):
            out.append(("api", t, fx.show(t), 2))
        for t in fx.shapes([0, 0], fx.BIN_API):
            out.append(("api", t, fx.show(t), 1))
        # unary wrappers at the root, on the left operand and on the right operand
        for u in fx.UN:
            out.append(("api", (u, ("leaf", 0)), "", 1))
            for t in fx.shapes([0, 1], fx.BIN_API):
                out.append(("api", (u, t), "", 2))
                out.append(("api", (t[0], (u, t[1]), t[2]), "", 2))
                out.append(("api", (t[0], t[1], (u, t[2])), "", 2))
            for t in fx.shapes([0, 1, 2], fx.BIN_API):
                out.append(("api", (u, t), "", 3))
        # constants on the right-hand side
        for c in (2.5, -3.0, 0.5):
            for op in fx.BIN_API:
                out.append(("api", (op, ("leaf", 0), ("const", c)), "", 1))
                for op2 in fx.BIN_API:
                    out.append(("api", (op2, (op, ("leaf", 0), ("const", c)), ("leaf", 1)), "", 2))
                    out.append(("api", (op2, ("leaf", 1), (op, ("leaf", 0), ("const", c))), "", 2))
    elif family.startswith("api-ops:"):
        ops = family.split(":", 1)[1].split(",")
        for t in fx.shapes(list(range(nmax)), ops):
            out.append(("api", t, "", nmax))
    elif family.startswith("str-ops:"):
        ops = family.split(":", 1)[1].split(",")
        for t in fx.shapes(list(range(nmax)), ops):
            for style in (0, 2):
                out.append(("str", t, fx.render(t, style), nmax))
    elif family.startswith("str-sample"):
        rnd = random.Random(seed)
        pool = list(fx.shapes(list(range(nmax)), fx.BIN_STR))
        size = int(family.split(":")[1]) if ":" in family else 600
        for t in rnd.sample(pool, min(size, len(pool))):
            out.append(("str", t, fx.render(t, rnd.choice((0, 2))), nmax))
    elif family.startswith("api-sample"):
        rnd = random.Random(seed)
        pool = list(fx.shapes(list(range(nmax)), fx.BIN_API))
        size = int(family.split(":")[1]) if ":" in family else 600
        for t in rnd.sample(pool, min(size, len(pool))):
            out.append(("api", t, "", nmax))
    out = [(k, t, (s or fx.show(t)), n) for k, t, s, n in out]
    _cache[key] = out
    return out


def make(family, nmax, lo, hi, seed=0, reach=False, lag=False):
    """lag: the input streams begin at different times (0-2 earlier samples per stream, at least one stream starts at the common timestamp)."""
    progs = programs(family, nmax, seed)[lo:hi]

    def fn(ex):
        k = ex.choice("program", len(progs))
        kind, t, text, n = progs[k]
        ids = sorted(fx.leaf_ids(t))
        nin = max(ids) + 1
        xs = [ex.real(f"x{i}") for i in range(nin)]
        ex.observe("program", text)
        try:
            expect = fx.ref_eval(t, xs)
        except (fx.Undefined, ZeroDivisionError):
            return  # division by zero: C13
        vals = [Power.from_watts(x) for x in xs]
        if kind == "str":
            out = fx.run_string(text, ids, dict(enumerate(vals)))
        elif lag:
            pre = [ex.choice(f"earlier_samples{i}", 3) for i in range(nin)]
            ex.assume(min(pre) == 0)
            out = fx.run_api(t, nin, vals, pre=pre)
            if not isinstance(out, str):
                ex.check(out.timestamp == fx.TS, "the first output is not stamped with the first common timestamp of the streams")
        else:
            out = fx.run_api(t, nin, vals)
        if reach:
            ex.check(False, "reach")
            return
        if isinstance(out, str):
            ex.check(False, f"no sample emitted ({out}) for a defined value")
            return
        if out.value is None:
            ex.check(False, "None emitted for a defined value")
            return
        ex.observe("out", out.value.base_value)
        # exact identity over the reals on symbolic paths (cheaper for nlsat than a tolerance); float tolerance on replays
        prop = fx.close_enough(out.value.base_value, expect) if ex.concrete else E(out.value.base_value) == E(expect)
        ex.check(prop, "formula output != arithmetic value of the expression")
    return fn


def _chunks(family, nmax, nchunks, seed=0, **kw):
    n = len(programs(family, nmax, seed))
    step = max(1, (n + nchunks - 1) // nchunks)
    out = []
    for ci, lo in enumerate(range(0, n, step)):
        hi = min(n, lo + step)
        out.append(Instance(f"{family.replace(':', '_').replace(',', '')}{nmax}-chunk{ci}", "make", (family, nmax, lo, hi, seed), f"{family} programs {lo}..{hi - 1} of {n} (<= {nmax} operands)",
                            budget_s=900, validate_every=10, programs=hi - lo, incremental=False, **kw))
    return out


def instances(tier):
    import os

    seed = int(os.environ.get("VERIF_SEED", "0"))
    out = [Instance("reach:str2", "make", ("str", 2, 0, 4, 0, True), "reachability twin", budget_s=60, validate_every=0)]
    nl = len(programs("api", 2, 0))
    lagged = Instance("api2-lagged-start", "make", ("api", 2, 0, nl, 0, False, True), f"all {nl} api programs <= 2 operands with streams that begin at different times "
                      "(0-2 earlier samples per stream)", budget_s=900, validate_every=10, programs=nl, incremental=False)
    if tier == "quick":
        out.append(lagged)
        out += (_chunks("str", 4, 16) + _chunks("api", 3, 16) + _chunks("api-ops:+,-,*", 4, 4) + _chunks("api-ops:-,/,max", 4, 4)
                + _chunks("str-ops:+,-,*", 5, 8) + _chunks("str-ops:-,/", 5, 4))
    else:
        # every string program with <= 5 operands and every API tree with <= 4 operands (exhaustive), then seeded samples of larger ones
        out += (_chunks("str", 5, 64) + _chunks("api", 4, 32) + _chunks("str-sample:4000", 6, 32, seed) + _chunks("str-sample:2000", 7, 16, seed)
                + _chunks("api-sample:4000", 5, 32, seed) + _chunks("api-sample:2000", 6, 16, seed))
        out.append(lagged)
    return out
