"""C01 — battery power distribution conserves the requested power."""
from __future__ import annotations

from harness.common import E, z3, core, tolz
from harness import dist
from harness.dist import BatteryDistributionAlgorithm
from symx.runner import Instance

ID = "C01"
LEVEL = "model_checking"
FUNCTIONS = dist.FUNCTIONS
SHIMS = dist.SHIMS
ASSUMPTIONS = [
    "floats are modelled as exact reals; tolerance 1e-6*max(1,|P|) on the sum identity",
    "consistent data: capacity > 0, 0 <= soc_lower <= soc_upper <= 100, soc in [0,100], incl_lower <= excl_lower <= 0 <= excl_upper <= incl_upper "
    "per battery and inverter, group minimum power <= group inclusion bound",
    "request non-zero and admitted by the advertised exclusion bound (sum over groups of max(aggregated battery excl, sum of inverter excl)); "
    "it may exceed the inclusion bound",
    "ValueError('all capacities 0') is an allowed outcome (unreachable under capacity > 0)",
]
BOUNDS = {
    "quick": "shapes (groups x batteries x inverters): 1x1x1, 1x1x2, 1x2x1 both directions, 2x(1x1) consume; exponent 1 (exponents 0 and 2 for 1 group); manager-level accounting for 1 group; 3 groups with concrete SoC data (linear, budgeted 100 s); "
             "2 groups x 2 inverters with non-binding battery limits (budgeted 100 s, not exhaustive)",
    "thorough": "quick + 2x(1x1) supply, exponents 0 and 2, (1x1 | 1x2), (1x2 | 1x1) mixed shapes, 3x(1x1) budgeted",
}
OUTSIDE = "more groups/batteries/inverters than listed; non-integer distribution exponents; IEEE rounding"
BUDGET = {"quick": 900, "thorough": 1800}


from harness.c15 import make_battery_full as make_manager  # noqa: E402,F401  (manager-level accounting of the same distribution)


def make(shape, exponent, sign, reach=False, wide_battery=False, soc_pattern=None):
    shape = tuple(tuple(s) for s in shape)

    def fn(ex):
        pairs, groups = dist.build(ex, shape, wide_battery=wide_battery, soc_pattern=soc_pattern)
        P, dirs = dist.request(ex, groups, sign)
        try:
            res = BatteryDistributionAlgorithm(exponent).distribute_power(P, pairs)
        except ValueError:
            return
        if reach:
            ex.check(False, "reach")
            return
        tot = E(res.remaining_power)
        for k, val in res.distribution.items():
            tot = tot + E(val)
        tol = tolz(E(P))
        ex.observe("remaining", res.remaining_power)
        ex.observe("distribution", dict(res.distribution))
        ex.check(dist.zabs(tot - E(P)) <= tol, "set-points + remainder != requested power")
        for k, val in res.distribution.items():
            ex.check(E(val) * sign >= -tol, f"set-point of inverter {k} has the wrong sign")
        rem = E(res.remaining_power) * sign
        ex.check(z3.And(rem >= -tol, rem <= E(P) * sign + tol), "remainder has the wrong sign or exceeds the request")
    return fn


def instances(tier):
    I = Instance
    kw = dict(incremental=False, validate_every=40, timeout_ms=30000)
    s11, s12, s21 = ((1, 1),), ((1, 2),), ((2, 1),)
    out = [
        I("reach:1x1x1", "make", (s11, 1.0, 1, True), "reachability twin", budget_s=60, incremental=False, validate_every=0),
        I("1x1x1+", "make", (s11, 1.0, 1), "1 group, 1 battery, 1 inverter, consume", budget_s=120, **kw),
        I("1x1x1-", "make", (s11, 1.0, -1), "same, supply", budget_s=120, **kw),
        I("1x1x1+e0", "make", (s11, 0.0, 1), "same, distributor exponent 0", budget_s=120, **kw),
        I("1x1x1-e2", "make", (s11, 2.0, -1), "same, supply, distributor exponent 2", budget_s=120, **kw),
        I("1x2x1+e0", "make", (s21, 0.0, 1), "2 batteries behind 1 inverter, exponent 0", budget_s=200, **kw),
        I("1x1x2+", "make", (s12, 1.0, 1), "1 battery behind 2 inverters, consume", budget_s=200, **kw),
        I("1x1x2-", "make", (s12, 1.0, -1), "1 battery behind 2 inverters, supply", budget_s=200, **kw),
        I("1x2x1+", "make", (s21, 1.0, 1), "2 batteries behind 1 inverter, consume", budget_s=200, **kw),
        I("3x(1x1)+soc", "make", (((1, 1),) * 3, 1.0, 1, False, False, (62.5, 68.75, 68.75)), "3 groups; SoC data concrete (headroom 37.5/31.25/31.25 %, capacity 1), so every "
          "share is linear in the symbolic request and bounds (QF_LRA); all power bounds and the request symbolic (budgeted)", budget_s=80, exhaustive=False,
          incremental=True, validate_every=200, timeout_ms=30000, decision_limit=120),
        I("2x(1x1)+", "make", (((1, 1), (1, 1)), 1.0, 1), "2 groups of 1 battery + 1 inverter, consume", budget_s=400, **kw),
        I("manager-1x1x1+", "make_manager", (((1, 1),), 1, True), "BatteryManager._distribute_power on the real distribution (all API calls succeed): "
          "commanded power + excess = request, succeeded_power = commanded power", budget_s=120, **kw),
        I("manager-1x1x1-", "make_manager", (((1, 1),), -1, True), "same, supply", budget_s=120, **kw),
        I("manager-1x1x2-", "make_manager", (((1, 2),), -1, True), "same, battery behind 2 inverters, supply", budget_s=200, **kw),
        I("(1x2|1x2)+wide", "make", (((1, 2), (1, 2)), 1.0, 1, False, True), "2 groups with 2 inverters each; batteries' own limits concrete and non-binding, "
          "SoC and all inverter bounds symbolic (budgeted)", budget_s=80, exhaustive=False, **kw),
    ]
    if tier == "quick":
        return out
    kw["dump_queries"] = 10
    out += [
        I("1x2x1-", "make", (s21, 1.0, -1), "2 batteries behind 1 inverter, supply", budget_s=200, **kw),
        I("2x(1x1)-", "make", (((1, 1), (1, 1)), 1.0, -1), "2 groups, supply", budget_s=400, **kw),
        I("2x(1x1)+e0", "make", (((1, 1), (1, 1)), 0.0, 1), "2 groups, exponent 0", budget_s=300, **kw),
        I("2x(1x1)+e2", "make", (((1, 1), (1, 1)), 2.0, 1), "2 groups, exponent 2", budget_s=250, exhaustive=False, **kw),
        I("(1x1|1x2)+", "make", (((1, 1), (1, 2)), 1.0, 1), "mixed shapes (budgeted)", budget_s=200, exhaustive=False, **kw),
        I("(2x1|1x1)+", "make", (((2, 1), (1, 1)), 1.0, 1), "mixed shapes (budgeted)", budget_s=200, exhaustive=False, **kw),
        I("3x(1x1)+", "make", (((1, 1), (1, 1), (1, 1)), 1.0, 1), "3 groups (budgeted)", budget_s=250, exhaustive=False, **kw),
    ]
    return out
