"""Shared machinery for the formula-engine properties (C05, C13, C06, C19): expression generators, the real engine on a
virtual-time event loop, reference evaluation."""
from __future__ import annotations

import asyncio
import itertools
import math

from harness.common import E, TS, z3, core

import async_solipsism
from frequenz.channels import Broadcast
from frequenz.client.microgrid import ComponentMetricId
from frequenz.quantities import Power, Quantity
from frequenz.sdk._internal._channels import ChannelRegistry
from frequenz.sdk.microgrid._data_pipeline import ComponentMetricRequest
from frequenz.sdk.timeseries._base_types import Sample
from frequenz.sdk.timeseries.formula_engine._formula_engine import FormulaEngine
from frequenz.sdk.timeseries.formula_engine._resampled_formula_builder import ResampledFormulaBuilder
import frequenz.sdk.timeseries.formula_engine._formula_evaluator as fe

NAN, INF = core._om.nan, core._om.inf


class _AsyncioShim:
    """asyncio.wait returns *ordered* lists (CPython's set order depends on object addresses, which breaks prefix replay)."""

    def __getattr__(self, n):
        return getattr(asyncio, n)

    async def wait(self, tasks, **kw):
        tasks = list(tasks)
        done, pending = await asyncio.wait(tasks, **kw)
        return [t for t in tasks if t in done], [t for t in tasks if t in pending]


_installed = False


def install():
    global _installed
    if not _installed:
        fe.asyncio = _AsyncioShim()
        _installed = True


SHIMS = ["math.isnan/isinf/isfinite dispatch on proxies", "asyncio.wait inside _formula_evaluator returns ordered lists (determinism of replay)",
         "async_solipsism virtual-time event loop, real frequenz.channels Broadcast/ChannelRegistry", "logging disabled"]


class Livelock(BaseException):
    """The event loop ran an absurd number of iterations without finishing (code under test spins without ever blocking)."""


class GuardLoop(async_solipsism.EventLoop):
    LIMIT = 200_000

    def __init__(self):
        super().__init__()
        self._iterations = 0

    def _run_once(self):
        self._iterations += 1
        if self._iterations > self.LIMIT:
            raise Livelock()
        return super()._run_once()


def run_loop(coro):
    loop = GuardLoop()
    try:
        return loop.run_until_complete(coro)
    finally:
        try:
            pend = [t for t in asyncio.all_tasks(loop) if not t.done()]
            for t in pend:
                t.cancel()
            if pend:
                loop._iterations = 0
                loop.run_until_complete(asyncio.gather(*pend, return_exceptions=True))
        except BaseException:  # noqa: BLE001
            pass
        loop.close()


# ------------------------------------------------------------------------------------------------
# expression trees:  ("leaf", i) | ("const", value) | (op, l, r) | ("consumption"|"production", t)

BIN_STR = ["+", "-", "*", "/"]
BIN_API = ["+", "-", "*", "/", "max", "min"]
UN = ["consumption", "production"]


def shapes(leaves, ops):
    """all binary trees over the leaf sequence `leaves` with operators from ops"""
    if len(leaves) == 1:
        yield ("leaf", leaves[0])
        return
    for i in range(1, len(leaves)):
        for l in shapes(leaves[:i], ops):
            for r in shapes(leaves[i:], ops):
                for op in ops:
                    yield (op, l, r)


def nleaves(t):
    if t[0] == "leaf":
        return 1
    if t[0] == "const":
        return 0
    if t[0] in UN:
        return nleaves(t[1])
    return nleaves(t[1]) + nleaves(t[2])


def leaf_ids(t, acc=None):
    acc = set() if acc is None else acc
    if t[0] == "leaf":
        acc.add(t[1])
    elif t[0] in UN:
        leaf_ids(t[1], acc)
    elif t[0] != "const":
        leaf_ids(t[1], acc)
        leaf_ids(t[2], acc)
    return acc


PREC = {"+": 1, "-": 1, "*": 2, "/": 2}


def render(t, style):
    """style 0: minimal parentheses (ordinary precedence, left assoc); 1: fully parenthesised; 2: minimal with odd whitespace;
    3: redundant double parentheses around leaves"""
    def r(t, parent_prec, right_side):
        if t[0] == "leaf":
            s = f"#{10 + t[1]}"
            return f"(({s}))" if style == 3 else s
        op, a, b = t
        p = PREC[op]
        sp = {0: " ", 1: " ", 2: "   ", 3: ""}[style]
        s = r(a, p, False) + sp + op + ("" if style == 2 else sp) + r(b, p, True)
        if style == 1 or p < parent_prec or (p == parent_prec and right_side):
            return "(" + s + ")"
        return s
    s = r(t, 0, False)
    if style == 2:
        s = "  " + s + " "
    return s


def show(t):
    if t[0] == "leaf":
        return f"x{t[1]}"
    if t[0] == "const":
        return repr(t[1])
    if t[0] in UN:
        return f"{t[0]}({show(t[1])})"
    if t[0] in ("max", "min"):
        return f"{t[0]}({show(t[1])}, {show(t[2])})"
    return f"({show(t[1])} {t[0]} {show(t[2])})"


# ---- reference semantics (Python's own arithmetic on the same values; None = missing)


class Undefined(Exception):
    pass


def ref_eval(t, xs, missing_absorbs=True):
    k = t[0]
    if k == "leaf":
        return xs[t[1]]
    if k == "const":
        return t[1]
    if k in UN:
        v = ref_eval(t[1], xs)
        if v is None:
            return None
        if k == "consumption":
            return v if v > 0 else 0.0
        return -v if v < 0 else 0.0
    a, b = ref_eval(t[1], xs), ref_eval(t[2], xs)
    if a is None or b is None:
        return None
    if k == "+":
        return a + b
    if k == "-":
        return a - b
    if k == "*":
        return a * b
    if k == "/":
        if b == 0:
            raise Undefined()
        return a / b
    if k == "max":
        return a if a >= b else b
    if k == "min":
        return a if a <= b else b
    raise core.HarnessError(k)


# ---- building through the operator API


def api_build(t, engs):
    k = t[0]
    if k == "leaf":
        return engs[t[1]]
    if k == "const":
        raise core.HarnessError("constant on the left-hand side")
    if k in UN:
        return getattr(api_build(t[1], engs), k)()
    lhs = api_build(t[1], engs)
    if t[2][0] == "const":
        c = t[2][1]
        rhs = c if k in ("*", "/") else Power.from_watts(c)
    else:
        rhs = api_build(t[2], engs)
    if k == "+":
        return lhs + rhs
    if k == "-":
        return lhs - rhs
    if k == "*":
        return lhs * rhs
    if k == "/":
        return lhs / rhs
    return getattr(lhs, k)(rhs)


def quantity_of(kind, x):
    """Sample value for an input of the given kind"""
    if kind == "real":
        return Power.from_watts(x)
    if kind == "none":
        return None
    return Power.from_watts({"nan": NAN, "inf": INF, "ninf": -INF}[kind])


async def _drive(eng, senders_samples, sub_engines, n_out=1):
    rx = eng.new_receiver()
    for snd, sample in senders_samples:
        await snd.send(sample)
    outs = []
    for _ in range(n_out):
        try:
            outs.append(await asyncio.wait_for(rx.receive(), 5.0))
        except asyncio.TimeoutError:
            outs.append("timeout")
            break
        except Exception as e:  # noqa: BLE001
            outs.append(f"error:{type(e).__name__}")
            break
    try:
        await eng._stop()
        for e in sub_engines:
            await e._stop()
    except Exception:  # noqa: BLE001
        pass
    return outs


def run_api(t, n, values, leafz=None, compz=False, pre=None):
    """values: list of Quantity|None per input.  Returns the first output sample, 'timeout' or 'error:..'.
    pre: per input the number of EARLIER samples (stamped TS - k s, value 1000 + k W) its stream delivers before the one stamped TS."""
    leafz = leafz or [False] * n
    pre = pre or [0] * n

    async def scenario():
        chans = [Broadcast[Sample[Power]](name=f"c{i}") for i in range(n)]
        engs = [FormulaEngine.from_receiver(f"e{i}", chans[i].new_receiver(), Power.from_watts, nones_are_zeros=leafz[i]) for i in range(n)]
        b = api_build(t, engs)
        eng = b.build("f", nones_are_zeros=compz)
        snd = [chans[i].new_sender() for i in range(n)]
        from datetime import timedelta as _td
        feeds = [(snd[i], Sample(TS - _td(seconds=k), Power.from_watts(1000.0 + k))) for i in range(n) for k in range(pre[i], 0, -1)]
        feeds += [(snd[i], Sample(TS, values[i])) for i in range(n)]
        return (await _drive(eng, feeds, engs))[0]
    return run_loop(scenario())


def run_string(formula, ids, values, zeros=False):
    """ids: list of leaf indices used; values: dict leaf index -> Quantity|None."""
    async def scenario():
        reg = ChannelRegistry(name="reg")
        sub = Broadcast[ComponentMetricRequest](name="sub")
        _keep = sub.new_receiver()
        b = ResampledFormulaBuilder("ns", "f", reg, sub.new_sender(), ComponentMetricId.ACTIVE_POWER, Power.from_watts)
        eng = b.from_string(formula, nones_are_zeros=zeros)
        feeds = []
        for i in ids:
            req = ComponentMetricRequest("ns", 10 + i, ComponentMetricId.ACTIVE_POWER, None)
            ch = reg.get_or_create(Sample[Quantity], req.get_channel_name())
            v = values[i]
            feeds.append((ch.new_sender(), Sample(TS, None if v is None else Quantity(v.base_value))))
        return (await _drive(eng, feeds, []))[0]
    return run_loop(scenario())


def close_enough(a, b):
    """z3 condition |a-b| <= 1e-9*max(1,|a|,|b|)"""
    a, b = E(a), E(b)
    return core.zabs(a - b) <= z3.RealVal("1/1000000000") * core.zmax(z3.RealVal(1), core.zabs(a), core.zabs(b))
