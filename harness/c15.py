"""C15 — distribution results truthfully account for the requested power."""
from __future__ import annotations

import asyncio
import types
from datetime import timedelta

from harness.common import E, z3, core, tolz
from harness import fx, dist
from symx.runner import Instance

from frequenz.client.microgrid import ApiClientError, OperationOutOfRange
from frequenz.quantities import Power
from frequenz.sdk.microgrid import connection_manager
from frequenz.sdk.microgrid._power_distributing._component_managers._battery_manager import BatteryManager
from frequenz.sdk.microgrid._power_distributing._component_managers._pv_inverter_manager._pv_inverter_manager import PVManager
from frequenz.sdk.microgrid._power_distributing._distribution_algorithm import DistributionResult, BatteryDistributionAlgorithm
from frequenz.sdk.microgrid._power_distributing.request import Request
from frequenz.sdk.microgrid._power_distributing.result import Success, PartialFailure

ID = "C15"
LEVEL = "model_checking"
FUNCTIONS = ["BatteryManager._distribute_power", "BatteryManager._set_distributed_power", "BatteryManager._parse_result", "BatteryManager._cancel_tasks",
             "PVManager.distribute_power (water-filling)", "PVManager._set_api_power", "Success/PartialFailure construction",
             "BatteryDistributionAlgorithm.distribute_power (instances 'full')"]
SHIMS = ["connection_manager = namespace with a fake API client whose set_power(i, w) outcome is a symbolic 5-way choice per inverter: ok, OperationOutOfRange, "
         "ApiClientError, RuntimeError, never completes (request timeout on the virtual-time loop -> cancelled)",
         "managers built with __new__ + the attributes the encoded methods read; status tracker / data caches are recording fakes", "math.isclose dispatch on proxies"]
ASSUMPTIONS = ["exact reals", "battery: set-points and remainder are arbitrary symbolic reals ('direct' instances) or come from the real distribution algorithm on symbolic "
               "data as in C01 ('full' instances)", "PV: request <= 0, each inverter's inclusion lower bound symbolic <= 0"]
BOUNDS = {"quick": "battery: 3 inverters incl. one feeding two batteries, and a battery behind two inverters, 6 outcomes per call; full path 1 and 2 groups with all calls succeeding and "
                   "with 5 outcomes for 1 group; PV: 2 and 3 inverters, 6 outcomes per call",
          "thorough": "battery full path with outcomes for 2 groups; PV 4 inverters"}
OUTSIDE = "EV charger manager; result fan-out through channels; more inverters"
BUDGET = {"quick": 900, "thorough": 1500}
OUT = ["ok", "range", "client", "other", "timeout", "slow_ok"]


def _grpc():
    import grpc
    from grpc.aio import AioRpcError

    return AioRpcError(code=grpc.StatusCode.OUT_OF_RANGE, initial_metadata=None, trailing_metadata=None, details="out of range", debug_error_string="")


def make_api(ex, calls, outcomes, all_ok=False, slow_delay=1.0):
    class Api:
        async def set_power(self, cid, w):
            calls.append((cid, w))
            o = "ok" if all_ok else OUT[ex.choice(f"outcome{cid}", len(OUT))]
            outcomes[cid] = "ok" if o == "slow_ok" else o
            if o == "ok":
                return
            if o == "slow_ok":  # succeeds well within the request timeout, but later than the other calls
                await asyncio.sleep(slow_delay)
                return
            if o == "range":
                err = OperationOutOfRange(server_url="x", operation="y", grpc_error=_grpc())
                assert isinstance(err, OperationOutOfRange)
                raise err
            if o == "client":
                raise ApiClientError(server_url="x", operation="y", description="d", retryable=False)
            if o == "other":
                raise RuntimeError("unexpected")
            await asyncio.Future()
    return Api()


class Tracker:
    def __init__(self):
        self.updates = []

    async def update_status(self, ok, failed):
        self.updates.append((set(ok), set(failed)))


def mk_manager(inv_bats):
    """BatteryManager with the four component maps its constructor derives from the component graph."""
    mgr = BatteryManager.__new__(BatteryManager)
    bat_invs = {}
    for i, bats in inv_bats.items():
        for b in bats:
            bat_invs.setdefault(b, set()).add(i)
    mgr._inv_bats_map = dict(inv_bats)
    mgr._bat_invs_map = {b: frozenset(v) for b, v in bat_invs.items()}
    mgr._bat_bats_map = {b: frozenset(set().union(*[inv_bats[i] for i in invs])) for b, invs in mgr._bat_invs_map.items()}
    mgr._inv_invs_map = {i: frozenset(set().union(*[mgr._bat_invs_map[b] for b in bats])) for i, bats in inv_bats.items()}
    mgr._api_power_request_timeout = timedelta(seconds=5)
    mgr._component_pool_status_tracker = Tracker()
    return mgr


def check_battery_result(ex, res, P, dist_map, rem, inv_bats, outcomes, calls):
    allbats = set().union(*inv_bats.values())
    failed = [c for c in dist_map if outcomes.get(c) != "ok"]
    fp = sum((E(dist_map[c]) for c in failed), z3.RealVal(0))
    tol = tolz(E(P))
    commanded = sum((E(w) for _c, w in calls), z3.RealVal(0))
    ex.check(sorted(c for c, _ in calls) == sorted(dist_map), "set_power calls differ from the distribution (inverter ids)")
    ex.check(z3.And(*[E(w) == E(dist_map[c]) for c, w in calls]) if calls else True, "set_power values differ from the distribution")
    if failed:
        ex.check(isinstance(res, PartialFailure), "some call failed but the result is not PartialFailure")
        if not isinstance(res, PartialFailure):
            return
        ex.check(core.zabs(E(res.failed_power.as_watts()) - fp) <= tol, "failed_power != sum of the set-points whose call was rejected/errored/timed out")
        total = E(res.succeeded_power.as_watts()) + E(res.failed_power.as_watts()) + E(res.excess_power.as_watts())
        fb = set().union(*[inv_bats[c] for c in failed])
        ex.check(set(res.failed_components) == fb, "failed_components != batteries behind the failed inverters")
        ex.check(set(res.succeeded_components) == allbats - fb, "succeeded_components != addressed batteries minus failed ones")
    else:
        ex.check(isinstance(res, Success), "every call succeeded but the result is not Success")
        if not isinstance(res, Success):
            return
        total = E(res.succeeded_power.as_watts()) + E(res.excess_power.as_watts())
        ex.check(set(res.succeeded_components) == allbats, "succeeded_components != addressed batteries")
    ex.check(core.zabs(total - E(P)) <= tol, "succeeded + failed + excess != requested power")
    ex.check(core.zabs(E(res.excess_power.as_watts()) - E(rem)) <= tol, "excess_power != undistributed remainder")
    ex.check(core.zabs(E(res.succeeded_power.as_watts()) - (commanded - fp)) <= tol, "succeeded_power != power commanded by the calls that succeeded")


def make_battery_direct(topo, reach=False):
    inv_bats = {int(k): frozenset(v) for k, v in topo}

    def fn(ex):
        calls, outcomes = [], {}
        connection_manager._CONNECTION_MANAGER = types.SimpleNamespace(api_client=make_api(ex, calls, outcomes), component_graph=None)
        mgr = mk_manager(inv_bats)
        sp = {cid: ex.real(f"s{cid}") for cid in inv_bats}
        rem = ex.real("rem")
        P = sum(sp.values(), rem)
        req = Request(power=Power.from_watts(P), component_ids=set().union(*inv_bats.values()))
        res = fx.run_loop(mgr._distribute_power(req, DistributionResult(dict(sp), rem)))
        if reach:
            ex.check(False, "reach")
            return
        check_battery_result(ex, res, P, sp, rem, inv_bats, outcomes, calls)
        upd = mgr._component_pool_status_tracker.updates
        ex.check(len(upd) == 1 and upd[0][0] == set(res.succeeded_components) and upd[0][1] == set(getattr(res, "failed_components", set())),
                 "status tracker not told the succeeded/failed batteries of this request")
    return fn


def make_battery_full(shape, sign, all_ok, exponent=1.0):
    """real distribution algorithm on symbolic data (C01 domain) followed by the real manager accounting"""
    shape = tuple(tuple(s) for s in shape)

    def fn(ex):
        pairs, groups = dist.build(ex, shape)
        P, dirs = dist.request(ex, groups, sign)
        try:
            dres = BatteryDistributionAlgorithm(exponent).distribute_power(P, pairs)
        except ValueError:
            return
        inv_bats = {}
        for G in groups:
            for i in G.inv_ids:
                inv_bats[i] = frozenset(G.bat_ids)
        calls, outcomes = [], {}
        connection_manager._CONNECTION_MANAGER = types.SimpleNamespace(api_client=make_api(ex, calls, outcomes, all_ok), component_graph=None)
        mgr = mk_manager(inv_bats)
        req = Request(power=Power.from_watts(P), component_ids=set().union(*inv_bats.values()))
        dist_map, rem = dict(dres.distribution), dres.remaining_power
        res = fx.run_loop(mgr._distribute_power(req, dres))
        check_battery_result(ex, res, P, dist_map, rem, inv_bats, outcomes, calls)
    return fn


class Cache:
    def __init__(self, lower):
        self._d = types.SimpleNamespace(active_power_inclusion_lower_bound=lower)

    def has_value(self):
        return True

    def get(self):
        return self._d


def _pv_manager(ex, ids, calls, outcomes, sent):
    # PV pools: a request time-out that is not a whole number of seconds (2.5 s) and a slow success inside its fractional part (2.2 s)
    connection_manager._CONNECTION_MANAGER = types.SimpleNamespace(api_client=make_api(ex, calls, outcomes, slow_delay=2.2), component_graph=None)

    class Sender:
        async def send(self, m):
            sent.append(m)
    mgr = PVManager.__new__(PVManager)
    mgr._results_sender = Sender()
    mgr._api_power_request_timeout = timedelta(seconds=2.5)
    mgr._pv_inverter_ids = set(ids)
    mgr._component_pool_status_tracker = types.SimpleNamespace(get_working_components=lambda c: set(c))
    lows = {}
    for i in ids:
        lo = ex.real(f"low{i}")
        ex.assume(E(lo) <= 0)
        lows[i] = lo
    mgr._component_data_caches = {i: Cache(lows[i]) for i in ids}
    mgr._target_power = Power.zero()
    return mgr, lows


def check_pv_result(ex, res, P, ids, lows, calls, outcomes, tag=""):
    n = len(ids)
    calls = [(c, w) for c, w in calls if c in ids]
    alloc = {c: w for c, w in calls}
    tol = tolz(E(P))
    ex.check(sorted(alloc) == sorted(ids) and len(calls) == n, tag + "not exactly one set_power call per addressed inverter")
    failed = [c for c in ids if outcomes.get(c) != "ok"]
    fp = sum((E(alloc[c]) for c in failed), z3.RealVal(0))
    commanded = sum((E(w) for w in alloc.values()), z3.RealVal(0))
    for c in ids:
        ex.check(z3.And(E(alloc[c]) <= tol, E(alloc[c]) >= E(lows[c]) - tol), tag + f"inverter {c} commanded outside [its inclusion lower bound, 0]")
    if failed:
        ex.check(isinstance(res, PartialFailure), tag + "some call failed but the result is not PartialFailure")
        if not isinstance(res, PartialFailure):
            return
        ex.check(core.zabs(E(res.failed_power.as_watts()) - fp) <= tol, tag + "PV failed_power != sum of the set-points of the failed calls")
        total = E(res.succeeded_power.as_watts()) + E(res.failed_power.as_watts()) + E(res.excess_power.as_watts())
        ex.check(set(res.failed_components) == set(failed) and set(res.succeeded_components) == set(ids) - set(failed), tag + "PV component sets wrong")
    else:
        ex.check(isinstance(res, Success), tag + "every call succeeded but the result is not Success")
        if not isinstance(res, Success):
            return
        total = E(res.succeeded_power.as_watts()) + E(res.excess_power.as_watts())
        ex.check(set(res.succeeded_components) == set(ids), tag + "PV succeeded_components != addressed inverters")
    ex.check(core.zabs(total - E(P)) <= tol, tag + "PV: succeeded + failed + excess != requested power")
    ex.check(core.zabs(E(res.succeeded_power.as_watts()) - (commanded - fp)) <= tol, tag + "PV: succeeded_power != power commanded by the calls that succeeded")
    ex.check(core.zabs(E(res.excess_power.as_watts()) - (E(P) - commanded)) <= tol, tag + "PV: excess_power != request minus commanded power")


def make_pv(n, reach=False):
    ids = [10 + i for i in range(n)]

    def fn(ex):
        calls, outcomes, sent = [], {}, []
        mgr, lows = _pv_manager(ex, ids, calls, outcomes, sent)
        P = ex.real("P")
        ex.assume(E(P) <= 0)
        req = Request(power=Power.from_watts(P), component_ids=set(ids))
        fx.run_loop(mgr.distribute_power(req))
        if reach:
            ex.check(False, "reach")
            return
        ex.check(len(sent) == 1, f"{len(sent)} results sent for one request")
        if len(sent) != 1:
            return
        check_pv_result(ex, sent[0], P, ids, lows, calls, outcomes)
    return fn


def make_pv_overlap(na, nb):
    """Two requests for disjoint inverter sets on the same PVManager, processed concurrently (the PowerDistributingActor runs
    requests for different component sets in parallel tasks): each result must account for its own request."""
    ida, idb = [10 + i for i in range(na)], [20 + i for i in range(nb)]

    def fn(ex):
        calls, outcomes, sent = [], {}, []
        mgr, lows = _pv_manager(ex, ida + idb, calls, outcomes, sent)
        PA, PB = ex.real("PA"), ex.real("PB")
        ex.assume(z3.And(E(PA) <= 0, E(PB) <= 0))
        ra = Request(power=Power.from_watts(PA), component_ids=set(ida))
        rb = Request(power=Power.from_watts(PB), component_ids=set(idb))

        async def both():
            await asyncio.gather(mgr.distribute_power(ra), mgr.distribute_power(rb))
        fx.run_loop(both())
        ex.check(len(sent) == 2, f"{len(sent)} results sent for two requests")
        for req, P, ids, tag in ((ra, PA, ida, "request A: "), (rb, PB, idb, "request B: ")):
            mine = [r for r in sent if r.request is req]
            ex.check(len(mine) == 1, tag + f"{len(mine)} results")
            if len(mine) == 1:
                check_pv_result(ex, mine[0], P, ids, lows, calls, outcomes, tag)
    return fn


T1 = ((8, (9,)), (18, (19,)), (28, (29, 30)))
T2 = ((7, (9,)), (8, (9,)), (18, (19,)))


def instances(tier):
    I = Instance
    kw = dict(validate_every=20)
    nl = dict(incremental=False, validate_every=40, timeout_ms=30000)
    out = [
        I("reach:battery-direct", "make_battery_direct", (T1, True), "reachability twin", budget_s=60, validate_every=0),
        I("battery-direct-T1", "make_battery_direct", (T1,), "3 inverters, one feeding two batteries; 6 outcomes per call", budget_s=200, **kw),
        I("battery-direct-T2", "make_battery_direct", (T2,), "a battery behind two inverters; 6 outcomes per call", budget_s=200, **kw),
        I("battery-full-1x1x1+ok", "make_battery_full", (((1, 1),), 1, True), "real distribution, 1 group, consume, all calls succeed", budget_s=200, **nl),
        I("battery-full-1x1x1-ok", "make_battery_full", (((1, 1),), -1, True), "real distribution, 1 group, supply, all calls succeed", budget_s=200, **nl),
        I("battery-full-1x1x2-", "make_battery_full", (((1, 2),), -1, False), "real distribution, battery behind 2 inverters, supply, 6 outcomes per call", budget_s=400, **nl),
        I("battery-full-2x(1x1)-ok", "make_battery_full", (((1, 1), (1, 1)), -1, True), "real distribution, 2 groups, supply, all calls succeed", budget_s=600, **nl),
        I("pv-2", "make_pv", (2,), "2 PV inverters, 6 outcomes per call", budget_s=200, **kw),
        I("pv-3", "make_pv", (3,), "3 PV inverters, 6 outcomes per call", budget_s=400, **kw),
        I("pv-overlap-1+1", "make_pv_overlap", (1, 1), "2 concurrent requests for disjoint PV inverter sets (1 + 1 inverters), 6 outcomes per call", budget_s=200, **kw),
    ]
    if tier != "quick":
        out += [
            I("battery-full-2x(1x1)+", "make_battery_full", (((1, 1), (1, 1)), 1, False), "real distribution, 2 groups, 6 outcomes per call (budgeted)", budget_s=1200,
              exhaustive=False, **nl),
            I("pv-4", "make_pv", (4,), "4 PV inverters", budget_s=900, exhaustive=False, **kw),
            I("pv-overlap-2+1", "make_pv_overlap", (2, 1), "2 concurrent requests for disjoint PV inverter sets (2 + 1 inverters)", budget_s=600, exhaustive=False, **kw),
        ]
    return out
