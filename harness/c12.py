"""C12 — generated microgrid power formulas balance for every topology (translation validation per topology)."""
from __future__ import annotations

import collections
import types
import warnings

from harness.common import E, TS, z3, core
from symx.runner import Instance

warnings.simplefilter("ignore")
from frequenz.channels import Broadcast
from frequenz.client.microgrid import Component, ComponentCategory as CC, Connection, InverterType
from frequenz.quantities import Power
from frequenz.sdk._internal._channels import ChannelRegistry
from frequenz.sdk.microgrid import connection_manager
from frequenz.sdk.microgrid.component_graph import _MicrogridComponentGraph, InvalidGraphError
from frequenz.sdk.timeseries._base_types import Sample
from frequenz.sdk.timeseries.formula_engine._formula_generators import (
    GridPowerFormula, ConsumerPowerFormula, ProducerPowerFormula, BatteryPowerFormula, PVPowerFormula,
    EVChargerPowerFormula, CHPPowerFormula, FormulaGeneratorConfig)

ID = "C12"
LEVEL = "translation_validation"
FUNCTIONS = [
    "_MicrogridComponentGraph (validate, successors/predecessors, is_*_meter/is_*_chain, dfs)",
    "GridPowerFormula/ConsumerPowerFormula/ProducerPowerFormula/BatteryPowerFormula/PVPowerFormula/EVChargerPowerFormula/CHPPowerFormula.generate",
    "FormulaGenerator._get_fallback_formulas/_get_metric_fallback_components/_is_primary_fallback_pair", "SimplePowerFormula (fallback formulas)",
    "ResampledFormulaBuilder.push_component_metric, FormulaBuilder.push_oper/finalize", "FormulaStep.apply of every generated step (MetricFetcher, Adder, Subtractor, ...)",
]
SHIMS = ["connection_manager._CONNECTION_MANAGER = namespace with a real _MicrogridComponentGraph (as the repo's tests do)",
         "generated engines are not started: their post-fix steps are applied by the real FormulaStep.apply to a stack of symbolic readings",
         "math.isnan/isinf dispatch on proxies"]
ASSUMPTIONS = [
    "every leaf device has an arbitrary real power; a meter reads the sum of its children plus an arbitrary unmetered load, except meters dedicated to one device type "
    "(a grid meter, i.e. the single successor of the grid, is never 'dedicated': the repo's own is_*_meter predicates exclude it)",
    "topologies are ENUMERATED (concrete) from a grammar: grid -> forest of {meter[children], battery inverter+battery, PV inverter, EV charger}, CHP only directly under a meter "
    "dedicated to CHPs (CHPPowerFormula raises by design otherwise); sibling order canonicalised; accepted by _MicrogridComponentGraph validation",
    "three modes per topology: allow_fallback=False; allow_fallback=True evaluated on the primaries; allow_fallback=True with every primary that has a fallback "
    "formula replaced by the value of its generated fallback formula (primary missing)",
]
BOUNDS = {"quick": "all topologies with <= 7 components (incl. grid and batteries); device powers symbolic", "thorough": "<= 8 components"}
OUTSIDE = "graphs outside the grammar (several batteries per inverter, inverters shared by batteries, cycles); stream timing (C06/C19); larger graphs"
BUDGET = {"quick": 400, "thorough": 1500}
KF = "C12-consumer-without-grid-meter-mixed-meter"


BATK = {"B": 2, "B2": 3, "BB": 3, "BS": 4}   # battery layouts: 1 inverter + 1 battery; 1 inverter + 2 batteries; 2 inverters + 1 battery;
#                                               inverter a -> {battery 1, battery 2} and inverter b -> {battery 2} (partially shared)


def kind(c):
    return "B" if c[0] in BATK else c[0]


def size(n):
    return BATK.get(n[0], 1) + sum(size(c) for c in n[1])


def gen_nodes(budget, under_meter):
    out = []
    if budget >= 1:
        out += [("P", ()), ("V", ())]
        if under_meter:
            out.append(("C", ()))
        for kids in gen_forests(budget - 1, True, True):
            out.append(("M", kids))
    if budget >= 2:
        out.append(("B", ()))
    return out


def gen_forests(budget, under_meter, allow_empty):
    res = [()] if allow_empty else []

    def rec(rem, minkey, acc):
        for n in gen_nodes(rem, under_meter):
            k = repr(n)
            if k < minkey:
                continue
            new = acc + (n,)
            res.append(new)
            rec(rem - size(n), k, new)
    rec(budget, "", ())
    return res


def chp_ok(n):
    """CHPs only under a meter dedicated to CHPs."""
    if n[0] != "M":
        return True
    kinds = {c[0] for c in n[1]}
    if "C" in kinds and kinds != {"C"}:
        return False
    return all(chp_ok(c) for c in n[1])


_TOPO = {}


def topologies(nmax):
    if nmax not in _TOPO:
        _TOPO[nmax] = [f for f in gen_forests(nmax - 1, False, False) if all(chp_ok(n) for n in f)]
    return _TOPO[nmax]


def show(f):
    def sh(n):
        return n[0] + ("[" + " ".join(sh(c) for c in n[1]) + "]" if n[1] or n[0] == "M" else "")
    return "GRID -> " + " ".join(sh(n) for n in f)


def build(forest):
    comps = {Component(1, CC.GRID)}
    conns, info, nid = set(), {}, [1]

    def add(n, parent):
        nid[0] += 1
        me = nid[0]
        if n[0] == "M":
            comps.add(Component(me, CC.METER))
        elif n[0] in BATK:
            ninv = 2 if n[0] in ("BB", "BS") else 1
            nbat = 2 if n[0] in ("B2", "BS") else 1
            invs = [me + i for i in range(ninv)]
            bats = [me + ninv + j for j in range(nbat)]
            nid[0] = bats[-1]
            for i in invs:
                comps.add(Component(i, CC.INVERTER, InverterType.BATTERY))
            for b in bats:
                comps.add(Component(b, CC.BATTERY))
                info.setdefault("bats", []).append(b)
            for a, i in enumerate(invs):
                for j, b in enumerate(bats):
                    if n[0] != "BS" or not (a == 1 and j == 0):   # BS: the second inverter feeds the second battery only
                        conns.add(Connection(i, b))
            for i in invs[1:]:
                conns.add(Connection(parent, i))
            info[("invs", me)] = invs
        elif n[0] == "P":
            comps.add(Component(me, CC.INVERTER, InverterType.SOLAR))
        elif n[0] == "V":
            comps.add(Component(me, CC.EV_CHARGER))
            info.setdefault("evs", []).append(me)
        elif n[0] == "C":
            comps.add(Component(me, CC.CHP))
        conns.add(Connection(parent, me))
        info[me] = n
        info[("kids", me)] = [add(c, me) for c in n[1]]
        return me
    roots = [add(n, 1) for n in forest]
    return comps, conns, info, roots


def dedicated(n):
    return n[0] == "M" and len(n[1]) > 0 and all(c[0] != "M" for c in n[1]) and len({kind(c) for c in n[1]}) == 1


def has_device(n):
    return n[0] != "M" or any(has_device(c) for c in n[1])


def known_region(forest):
    """ConsumerPowerFormula takes its 'without grid meter' path (not every grid successor is a non-dedicated meter; a dedicated
    meter only counts as dedicated when the grid has several successors), and one grid successor is a non-dedicated meter with
    some device below it: that meter's whole reading is then counted as consumption."""
    multi = len(forest) > 1
    ded = lambda n: multi and dedicated(n)  # noqa: E731
    if all(n[0] == "M" and not ded(n) for n in forest):
        return False
    return any(n[0] == "M" and not ded(n) and has_device(n) for n in forest)


def evaluate(engine, truth, use_fallback, depth=0):
    steps, fetchers = engine._builder.finalize()
    for name, f in fetchers.items():
        cid = int(name[1:])
        val = truth.get(cid)
        if use_fallback and getattr(f, "_fallback", None) is not None and depth < 3:
            fb_engine = f._fallback._formula_generator.generate()
            val = evaluate(fb_engine, truth, use_fallback, depth + 1)
        f._next_value = Sample(TS, Power.from_watts(val) if val is not None else None)
    st = []
    for s_ in steps:
        s_.apply(st)
    if len(st) != 1:
        raise core.HarnessError(f"formula left {len(st)} values on the stack")
    return st[0]


GENS = [("grid", GridPowerFormula), ("consumer", ConsumerPowerFormula), ("producer", ProducerPowerFormula), ("battery", BatteryPowerFormula),
        ("ev", EVChargerPowerFormula), ("pv", PVPowerFormula), ("chp", CHPPowerFormula)]


def _tup(x):
    return tuple(_tup(y) for y in x) if isinstance(x, (list, tuple)) else x


def make_forest(forest, allow_fallback, eval_fallback=None):
    """One explicit topology (used for committed witnesses)."""
    return make(0, 0, 1, allow_fallback, topos=[_tup(forest)], eval_fallback=eval_fallback)


def make(nmax, lo, hi, allow_fallback, reach=False, topos=None, eval_fallback=None, refreshed=False):
    """refreshed: the graph object first holds another valid topology (the one `stride` places further in the enumeration) for
    which all formulas are generated, and is then refreshed (refresh_from) to the topology under test: whatever the object
    remembers about the previous layout must not leak."""
    eval_fallback = allow_fallback if eval_fallback is None else eval_fallback
    alltopos = topologies(nmax) if topos is None else topos
    topos = alltopos[lo:hi] if topos is None else topos

    def fn(ex):
        k = ex.choice("topology", len(topos))
        forest = topos[k]
        comps, conns, info, roots = build(forest)
        try:
            if refreshed:
                graph = None
                for off in range(8):   # the first valid layout from there on
                    prev = alltopos[(lo + k + max(1, len(alltopos) // 3) + off) % len(alltopos)]
                    pc, pn, pinfo, _ = build(prev)
                    try:
                        graph = _MicrogridComponentGraph(pc, pn)
                        break
                    except InvalidGraphError:
                        continue
                if graph is None:
                    raise core.HarnessError("no valid previous topology")
                connection_manager._CONNECTION_MANAGER = types.SimpleNamespace(component_graph=graph, api_client=None)
                preg, psnd = ChannelRegistry(name="p"), Broadcast(name="p").new_sender()
                for label, cls in GENS:
                    ids = (set(pinfo.get("bats", [])) or None) if label == "battery" else (set(pinfo.get("evs", [])) or None) if label == "ev" else None
                    cls("ns0", preg, psnd, FormulaGeneratorConfig(component_ids=ids, allow_fallback=allow_fallback)).generate()
                for c_ in graph.components():
                    for pred in ("is_grid_meter", "is_pv_meter", "is_battery_meter", "is_ev_charger_meter", "is_chp_meter",
                                 "is_pv_chain", "is_battery_chain", "is_ev_charger_chain", "is_chp_chain"):
                        getattr(graph, pred)(c_)
                graph.refresh_from(comps, conns)
            else:
                graph = _MicrogridComponentGraph(comps, conns)
        except InvalidGraphError:
            return
        connection_manager._CONNECTION_MANAGER = types.SimpleNamespace(component_graph=graph, api_client=None)
        truth = {}
        tot = collections.defaultdict(lambda: z3.RealVal(0))

        def rd(me):
            n = info[me]
            if n[0] != "M":
                tot_v = 0.0
                for i in info.get(("invs", me), [me]):   # every inverter of a multi-inverter battery layout has its own power
                    v = ex.real(f"p{i}")
                    truth[i] = v
                    tot[kind(n)] = tot[kind(n)] + E(v)
                    tot_v = tot_v + v
                return tot_v
            s = 0.0
            for kid in info[("kids", me)]:
                s = s + rd(kid)
            # a single grid successor is the grid meter: the repo never classifies it as a device meter, so it may carry load
            # (except a CHP's meter: CHPPowerFormula reads the meter in front of a CHP, "metered CHPs" in the property)
            # In fallback mode the generated fallback of such a grid meter is the sum of its devices, which cannot know the
            # load: there the grid meter is treated as dedicated too (fallback exactness is C19's subject, not C12's).
            if not (dedicated(n) and (len(forest) > 1 or me not in roots or n[1][0][0] == "C" or eval_fallback)):  # noqa: E501
                ld = ex.real(f"load{me}")
                s = s + ld
                tot["L"] = tot["L"] + E(ld)
            truth[me] = s
            return s
        grid_true = z3.RealVal(0)
        for r in roots:
            grid_true = grid_true + E(rd(r))
        reg = ChannelRegistry(name="r")
        snd = Broadcast(name="s").new_sender()
        vals = {}
        for label, cls in GENS:
            ids = None
            if label == "battery":
                ids = set(info.get("bats", [])) or None
            if label == "ev":
                ids = set(info.get("evs", [])) or None
            eng = cls("ns", reg, snd, FormulaGeneratorConfig(component_ids=ids, allow_fallback=allow_fallback)).generate()
            vals[label] = E(evaluate(eng, truth, eval_fallback))
        if reach:
            ex.check(False, "reach")
            return
        ex.observe("topology", show(forest))
        ex.observe("formerly_failing_family", known_region(forest))  # the family repaired by the consumer-formula fix (kept for the record)
        g, c, p, b, v = vals["grid"], vals["consumer"], vals["producer"], vals["battery"], vals["ev"]
        ex.check(g == grid_true, "grid formula != sum of what is connected to the grid ")
        ex.check(g == c + p + b + v, "grid != consumer + producer + battery + ev ")
        ex.check(c == tot["L"], "consumer formula != total load ")
        ex.check(p == tot["P"] + tot["C"], "producer formula != pv + chp ")
        ex.check(b == tot["B"], "battery formula != total battery power ")
        ex.check(v == tot["V"], "ev formula != total ev power ")
        ex.check(vals["pv"] == tot["P"], "pv formula != total pv power ")
        ex.check(vals["chp"] == tot["C"], "chp formula != total chp power ")
    return fn


def instances(tier):
    I = Instance
    nmax = 7 if tier == "quick" else 8
    n = len(topologies(nmax))
    out = [I("reach:n4", "make", (4, 0, len(topologies(4)), False, True), "reachability twin", budget_s=60, validate_every=0)]
    nchunks = 16 if tier == "quick" else 64
    step = (n + nchunks - 1) // nchunks
    for fb, ev, tag in ((False, False, "nofb"), (True, False, "fb-primary"), (True, True, "fb-fallback")):
        for ci, lo in enumerate(range(0, n, step)):
            hi = min(n, lo + step)
            out.append(I(f"n{nmax}-{tag}-chunk{ci}", "make", (nmax, lo, hi, fb, False, None, ev),
                         f"topologies {lo}..{hi - 1} of {n} with <= {nmax} components, allow_fallback={fb}, "
                         + ("primaries missing: fallback formulas evaluated" if ev else "all primaries valid"),
                         budget_s=600, validate_every=20, programs=hi - lo))
    shared = []
    for X in ("B2", "BB", "BS"):
        x = (X, ())
        shared += [(x,), (("M", (x,)),), (("M", (x, ("P", ()))),), (x, ("M", (("P", ()),))), (("M", (x, ("B", ()))),), (x, ("B", ())), (("M", (("M", (x,)), ("V", ()))),)]
    for fb, ev, tag in ((False, False, "nofb"), (True, False, "fb-primary"), (True, True, "fb-fallback")):
        out.append(I(f"shared-battery-{tag}", "make", (0, 0, len(shared), fb, False, tuple(shared), ev),
                     f"{len(shared)} topologies with batteries sharing inverters (1 inverter : 2 batteries, 2 inverters : 1 battery, partially shared), allow_fallback={fb}",
                     budget_s=100, validate_every=5, programs=len(shared)))
    n6 = len(topologies(6))
    rch = 4 if tier == "quick" else 16
    nr, tagr = (6, n6) if tier == "quick" else (nmax, n)
    stepr = (tagr + rch - 1) // rch
    for ci, lo in enumerate(range(0, tagr, stepr)):
        hi = min(tagr, lo + stepr)
        out.append(I(f"n{nr}-refreshed-chunk{ci}", "make", (nr, lo, hi, False, False, None, False, True),
                     f"topologies {lo}..{hi - 1} with <= {nr} components on a graph object that held another topology before (formulas generated, "
                     "every is_* predicate queried) and was refreshed with refresh_from()", budget_s=300, validate_every=20, programs=hi - lo))
    return out
