"""C04 — lower-priority preferences are honoured only inside higher-priority bounds (Matryoshka + _Report)."""
from __future__ import annotations

from harness.common import E, z3, core
from harness.c03 import sysbounds, mkp, IDS, W, FUNCTIONS as F3, SHIMS, Matryoshka, Proposal, Bounds, timedelta
from symx.runner import Instance

ID = "C04"
LEVEL = "model_checking"
FUNCTIONS = F3 + ["Matryoshka.get_status", "_Report.adjust_to_bounds", "_Report.bounds"]
ASSUMPTIONS = [
    "floats are modelled as exact reals",
    "system bounds il <= el <= 0 <= eu <= iu (exclusion zone inside the inclusion bounds, the documented contract of SystemBounds; with a zone sticking out of the "
    "inclusion bounds a zero preference inside the reported bounds is not adopted - outside C04's conflict-free domain)",
    "conflict-free proposal set, stated declaratively: at every prefix of the priority order the interval "
    "[max(il, lowers...), min(iu, uppers...)] minus the open exclusion zone (el, eu) is non-empty",
]
BOUNDS = {
    "quick": "2 proposals: higher priority with every None pattern, lower priority with a preference; clause (c): an empty third proposal at "
             "each of the 3 priority positions; lower-priority proposal with symbolic bounds of its own; all values symbolic",
    "thorough": "quick + 3 proposals (two bound-setters above one preference)",
}
OUTSIDE = "more than 3 proposals; IEEE rounding"
BUDGET = {"quick": 400, "thorough": 1500}


def _running(il, iu, props):
    """Declarative running interval after the bounds of `props` (priority order), as z3 terms, plus the conflict-free condition."""
    L, H = E(il), E(iu)
    ok = []
    for p in props:
        if p.bounds.lower is not None:
            L = core.zmax(L, E(p.bounds.lower.as_watts()))
        if p.bounds.upper is not None:
            H = core.zmin(H, E(p.bounds.upper.as_watts()))
        ok.append((L, H))
    return L, H, ok


def _nonempty(L, H, el, eu):
    return z3.And(L <= H, z3.Or(L <= E(el), H >= E(eu), E(el) == E(eu)))


def make_pref(n_high, low_bounds, empty_pos=None, reach=False):
    """n_high bound-setting proposals (any None pattern) above one proposal with a preference.
    empty_pos: None, or 'top'/'mid'/'bottom': additionally an empty proposal (no power, no bounds) is added there (clause c)."""
    def fn(ex):
        sb, (il, iu, el, eu) = sysbounds(ex, subset=True)
        m = Matryoshka(max_proposal_age=timedelta(seconds=60))
        highs = [mkp(ex, f"H{k}", f"H{k}", 10 * (n_high - k) + 10) for k in range(n_high)]
        pB = ex.real("pB")
        lowp = Proposal(source_id="B", preferred_power=W(pB),
                        bounds=Bounds(*( (W(ex.real("lB")) if ex.flag("has_lB") else None, W(ex.real("uB")) if ex.flag("has_uB") else None) if low_bounds else (None, None))),
                        component_ids=IDS, priority=5, creation_time=0.0, set_operating_point=False)
        for h in highs:
            m.calculate_target_power(IDS, h, sb, True)
        t = m.calculate_target_power(IDS, lowp, sb, True)
        # declarative conflict-freedom over the higher-priority bounds
        L, H, prefixes = _running(il, iu, highs)
        for (l_, h_) in prefixes:
            ex.assume(_nonempty(l_, h_, el, eu))
        if reach:
            ex.check(False, "reach")
            return
        rep = m.get_status(IDS, 5, sb)
        lo, hi = E(rep.bounds.lower.as_watts()), E(rep.bounds.upper.as_watts())
        ex.observe("target", t.as_watts())
        ex.observe("rep_lo", rep.bounds.lower.as_watts())
        ex.observe("rep_hi", rep.bounds.upper.as_watts())
        tw, p = E(t.as_watts()), E(pB)
        ex.check(lo <= hi, "reported bounds empty although conflict-free")
        adm = lambda v: z3.And(lo <= v, v <= hi, z3.Or(v <= E(el), v >= E(eu)))  # noqa: E731
        ex.check(z3.Implies(z3.And(lo <= p, p <= hi, z3.Or(p == 0, p <= E(el), p >= E(eu))), tw == p),
                 "preferred power inside reported bounds not adopted unchanged")
        dist = lambda v: core.zabs(v - p)  # noqa: E731
        cands = [lo, hi, E(el), E(eu)]
        nonempty = z3.Or(*[adm(c) for c in cands])
        # (a zero preference may stay inside the exclusion zone, but only where zero lies inside the reported bounds)
        not_free_zero = z3.Or(p != 0, z3.Not(z3.And(lo <= 0, 0 <= hi)))
        ex.check(z3.Implies(z3.And(not_free_zero, nonempty),
                            z3.And(adm(tw), *[z3.Implies(adm(c), dist(tw) <= dist(c)) for c in cands], z3.Implies(adm(p), tw == p))),
                 "target is not the closest admissible value")
        # the reported range is declaratively the running intersection carved by the exclusion zone
        ex.check(z3.And(lo >= L, hi <= H, z3.Implies(z3.And(L <= E(el), True), lo == L), z3.Implies(H >= E(eu), hi == H)),
                 "reported bounds differ from the intersection of system and higher-priority bounds")
        adj = rep.adjust_to_bounds(W(pB))
        ex.check(z3.Implies(z3.And(not_free_zero, nonempty), z3.Or(*[tw == E(a.as_watts()) for a in adj if a is not None], False)),
                 "adjust_to_bounds(preferred) does not contain the target")
        if empty_pos is not None:
            prio = {"top": 10 * n_high + 20, "mid": 7, "bottom": 1}[empty_pos]
            emp = Proposal(source_id="E", preferred_power=None, bounds=Bounds(None, None), component_ids=IDS, priority=prio,
                           creation_time=0.0, set_operating_point=False)
            t2 = m.calculate_target_power(IDS, emp, sb, True)
            ex.check(E(t2.as_watts()) == tw, f"empty proposal at {empty_pos} changes the target")
            rep2 = m.get_status(IDS, 5, sb)
            ex.check(z3.And(E(rep2.bounds.lower.as_watts()) == lo, E(rep2.bounds.upper.as_watts()) == hi),
                     f"empty proposal at {empty_pos} changes the bounds reported to the lower-priority actor")
            rep3 = m.get_status(IDS, 0, sb)
            ex.observe("rep0_lo", rep3.bounds.lower.as_watts())
    return fn


def instances(tier):
    I = Instance
    out = [
        I("reach:pref-1high", "make_pref", (1, False, None, True), "reachability twin", budget_s=60, validate_every=0),
        I("pref-0high-ownbounds", "make_pref", (0, True), "a single actor with a preference and its own bounds (which apply to lower priorities only)",
          budget_s=200, validate_every=20),
        I("pref-0high-ownbounds-empty-bottom", "make_pref", (0, True, "bottom"), "a single actor with a preference and its own bounds + an empty proposal below it",
          budget_s=200, validate_every=20),
        I("pref-1high", "make_pref", (1, False), "1 bound-setter (any None pattern) above 1 preference", budget_s=300, validate_every=100),
        I("pref-1high-empty-top", "make_pref", (1, False, "top"), "+ empty proposal with the highest priority", budget_s=200, validate_every=100),
        I("pref-1high-empty-mid", "make_pref", (1, False, "mid"), "+ empty proposal between the two", budget_s=200, validate_every=100),
        I("pref-1high-empty-bottom", "make_pref", (1, False, "bottom"), "+ empty proposal with the lowest priority", budget_s=200, validate_every=100),
    ]
    out.append(I("pref-1high-lowbounds", "make_pref", (1, True), "lower-priority proposal also carries symbolic bounds", budget_s=900, validate_every=500))
    if tier == "quick":
        return out
    out += [
        I("pref-2high", "make_pref", (2, False), "2 bound-setters above 1 preference", budget_s=1500, validate_every=2000, dump_queries=40),
    ]
    return out
