"""C10 — actors restart after failures, only after failures, and stop cleanly."""
from __future__ import annotations

import asyncio

from harness.common import E, EI, z3, core
from harness import fx
from symx.runner import Instance

import frequenz.sdk.actor._actor as am
from frequenz.sdk.actor import Actor, BackgroundService, run as run_actors

ID = "C10"
LEVEL = "model_checking"
FUNCTIONS = ["Actor._run_loop", "Actor._delay_if_restart", "Actor.start", "BackgroundService.cancel/stop/wait/is_running/tasks", "frequenz.sdk.actor.run"]
SHIMS = ["(a) asyncio.sleep inside _actor is a one-shot awaitable: the restart delay is a real suspension point; _run_loop is driven by hand with send()/throw(), "
         "so the driver decides at every suspension what happens next",
         "(b) real asyncio tasks on the async_solipsism virtual-time loop"]
ASSUMPTIONS = ["(a) restart limit is a symbolic integer in [0, 5] or None; at every suspension of the run logic the driver's action is a symbolic choice among: resume, "
               "raise Exception, raise BaseException, cancel; during the restart delay: continue or cancel",
               "(b) per task a symbolic behaviour (finish, raise, run until cancelled, finish slowly after the first cancel, hand over to a new task when finishing, "
               "spawn a clean-up task when cancelled); the operation (stop / wait / cancel then wait) and its instant are symbolic choices",
               "the solver's role here is the case split over these finite choices plus the arithmetic over the symbolic restart limit"]
BOUNDS = {"quick": "(a) <= 4 runs per start, 2 starts of the same actor, 1 or 2 await points in the run logic; (b) 2 and 3 tasks; run() with 2 actors",
          "thorough": "(a) <= 5 runs, 2 await points (budgeted)"}
OUTSIDE = "thread-safety; actors started from other actors; cancel_and_await() swallowing the caller's own cancellation"
BUDGET = {"quick": 300, "thorough": 900}
LOG = []


class Yield:
    def __await__(self):
        yield self


class FakeAsyncio:
    CancelledError = asyncio.CancelledError

    def __getattr__(self, n):
        return getattr(asyncio, n)

    async def sleep(self, delay):
        LOG.append(("delay", delay))
        await Yield()

    @staticmethod
    def current_task():
        return None   # the hand-driven coroutine of (a) runs outside any task


class MyBase(BaseException):
    pass


def make_runloop(K, awaits, starts=2, reach=False):
    class Probe(Actor):
        async def _run(self):
            LOG.append(("enter",))
            for i in range(awaits):
                await Yield()
                LOG.append(("resumed", i))
            LOG.append(("returned",))

    def fn(ex):
        real_asyncio = am.asyncio
        am.asyncio = FakeAsyncio()
        try:
            a = Probe.__new__(Probe)
            a._name = "p"
            a._tasks = set()
            unlimited = ex.flag("unlimited")
            lim = None if unlimited else ex.int_("limit", 0, 5)
            a._restart_limit = lim
            for start_no in range(starts):
                LOG.clear()
                coro = a._run_loop()
                runs, fails, final = 0, 0, None
                expect_more = True   # the first invocation of a start is always due
                expect_delay = False
                inject = None
                active = False       # True while a _run invocation is suspended
                for step in range((awaits + 2) * (K + 1) + 4):
                    n0 = len(LOG)
                    try:
                        if inject is None:
                            coro.send(None)
                        else:
                            exc, inject = inject, None
                            coro.throw(exc)
                    except StopIteration:
                        final = "return"
                    except asyncio.CancelledError:
                        final = "cancelled"
                    except MyBase:
                        final = "base"
                    except Exception:  # noqa: BLE001
                        final = "exception"
                    new = LOG[n0:]
                    for ev in new:
                        if ev[0] == "delay":
                            ex.check(expect_delay, "restart delay although no restart is due")
                            ex.check(not active, "restart delay while the previous run is still active")
                            expect_delay = False
                        elif ev[0] == "enter":
                            runs += 1
                            ex.check(expect_more, f"start {start_no}: run logic entered (run #{runs}) although no (re)start is due")
                            ex.check(not expect_delay, "run logic re-entered without the restart delay")
                            ex.check(not active, "run logic entered while a previous invocation is still running")
                            active = True
                            expect_more = False
                    if final is not None:
                        break
                    if runs > K:
                        return  # bound on the number of runs per start
                    where = LOG[-1][0]
                    if where == "delay":
                        if ex.flag(f"cancel_in_delay_{start_no}_{step}"):
                            inject = asyncio.CancelledError()
                            expect_more = False
                            expect_final = "cancelled"
                        continue
                    # suspended inside the run logic: choose what happens at this await point
                    last_point = LOG[-1] == ("resumed", awaits - 2) or (awaits == 1 and LOG[-1] == ("enter",))
                    act = ex.choice(f"act_{start_no}_{step}", 4)
                    if act == 0:      # resume
                        if last_point:
                            active = False
                            expect_final = "return"
                    elif act == 1:    # unhandled exception
                        inject = RuntimeError("boom")
                        active = False
                        restart = unlimited or ex.branch(fails < EI(lim))
                        fails += 1
                        if restart:
                            expect_more, expect_delay = True, True
                            expect_final = None
                        else:
                            expect_final = "exception"
                    elif act == 2:
                        inject = MyBase()
                        active = False
                        expect_final = "base"
                    else:
                        inject = asyncio.CancelledError()
                        active = False
                        expect_final = "cancelled"
                if reach:
                    if start_no == starts - 1 and runs >= 2:
                        ex.check(False, "reach")
                    continue
                ex.check(not expect_more, f"start {start_no}: loop ended ({final}) although a restart was due")
                ex.check(final == expect_final, f"start {start_no}: loop ended with {final}, expected {expect_final}")
        finally:
            am.asyncio = real_asyncio
    return fn


BEHAVIOURS = ["finish", "raise", "raise_base", "forever", "slow_cancel", "handover", "self_stop", "cleanup_on_cancel"]


class TaskBaseError(BaseException):
    """A task error that is neither an Exception nor a CancelledError (the quantifier's 'raise BaseException' outcome)."""


def make_service(ntasks, allow_cleanup=False, reach=False):
    nb = len(BEHAVIOURS) if allow_cleanup else len(BEHAVIOURS) - 1

    def fn(ex):
        beh = [BEHAVIOURS[ex.choice(f"behaviour{i}", nb)] for i in range(ntasks)]
        op = ["stop", "wait", "cancel_wait", "stop_twice", "wait_and_stop"][ex.choice("operation", 5)]
        late = ex.flag("operate_after_2s")
        child_fails = ex.flag("child_raises")
        all_tasks, errors_expected = [], []

        class Svc(BackgroundService):
            def start(self):
                for i, b in enumerate(beh):
                    t = asyncio.create_task(self._body(b, i))
                    all_tasks.append(t)
                    self._tasks.add(t)

            async def _child(self):
                await asyncio.sleep(1.0)
                if child_fails:
                    raise ValueError("child failed")

            def _spawn(self):
                t = asyncio.create_task(self._child())
                all_tasks.append(t)
                self._tasks.add(t)

            async def _body(self, b, i):
                try:
                    if b == "finish":
                        await asyncio.sleep(1.0)
                    elif b == "raise":
                        await asyncio.sleep(1.0)
                        raise RuntimeError(f"task {i} failed")
                    elif b == "raise_base":
                        await asyncio.sleep(1.0)
                        raise TaskBaseError(f"task {i} failed with a BaseException")
                    elif b == "self_stop":   # the service is stopped from one of its own tasks
                        await asyncio.sleep(1.0)
                        await self.stop()
                    elif b == "handover":
                        await asyncio.sleep(1.0)
                        self._spawn()
                    else:
                        await asyncio.sleep(1000.0)
                except asyncio.CancelledError:
                    if b == "slow_cancel":
                        await asyncio.sleep(1.0)
                        return
                    if b == "cleanup_on_cancel":
                        self._spawn()
                    raise

        async def scenario():
            s = Svc(name="svc")
            s.start()
            await asyncio.sleep(2.0 if late else 0.0)
            raised = None
            try:
                if op == "stop":
                    await asyncio.wait_for(s.stop(), 100.0)
                elif op == "stop_twice":
                    await asyncio.wait_for(s.stop(), 100.0)
                    await asyncio.wait_for(s.stop(), 100.0)
                elif op == "wait_and_stop":   # a second waiter is already pending when stop() is called
                    other = asyncio.create_task(s.wait())
                    await asyncio.sleep(0)
                    try:
                        await asyncio.wait_for(s.stop(), 100.0)
                    finally:
                        other.cancel()
                        await asyncio.gather(other, return_exceptions=True)
                elif op == "wait":
                    await asyncio.wait_for(s.wait(), 100.0)
                else:
                    s.cancel()
                    await asyncio.wait_for(s.wait(), 100.0)
            except asyncio.TimeoutError:
                raised = "timeout"
            except BaseExceptionGroup as g:
                raised = g
            states = [(t.done(), (t.cancelled() if t.done() else None)) for t in all_tasks]
            errs = []
            for t in all_tasks:
                if t.done() and not t.cancelled() and t.exception() is not None:
                    errs.append(t.exception())
            running = s.is_running
            for t in all_tasks:  # tidy up (a wait() that legitimately blocks leaves tasks behind)
                t.cancel()
            await asyncio.gather(*all_tasks, return_exceptions=True)
            s._tasks.clear()
            return raised, states, errs, running
        raised, states, errs, running = fx.run_loop(scenario())
        if reach:
            if raised is not None and raised != "timeout":
                ex.check(False, "reach")
            return
        forever = any(b in ("forever", "cleanup_on_cancel") for b in beh) or (any(b == "slow_cancel" for b in beh))
        if op == "wait" and raised == "timeout":
            # wait() without cancelling legitimately blocks on tasks that never end
            ex.check(forever, "wait() timed out although every task ends by itself")
            return
        ex.check(raised != "timeout", f"{op}() did not return")
        ex.check(all(d for d, _c in states), f"{op}() returned while a task it owns is still running: {states}")
        ex.check(not running, f"service still reports is_running after {op}()")
        got = [] if raised in (None, "timeout") else list(raised.exceptions)
        if op in ("stop", "stop_twice", "wait_and_stop"):
            ex.check(not any(isinstance(e, asyncio.CancelledError) for e in got), "stop() surfaced a CancelledError")
        noncancel = [e for e in got if not isinstance(e, asyncio.CancelledError)]
        ex.check(sorted(map(repr, noncancel)) == sorted(map(repr, errs)),
                 f"errors surfaced by {op}() {sorted(map(repr, noncancel))} != errors of the tasks {sorted(map(repr, errs))}")
    return fn


def make_run(reach=False):
    """run(a, b) returns exactly when both actors are done"""
    def fn(ex):
        outcome = [ex.choice(f"outcome{i}", 3) for i in range(2)]   # 0 return, 1 BaseException-free failure beyond the limit, 2 long running then return
        dur = [1.0 + 3.0 * ex.choice(f"dur{i}", 3) for i in range(2)]
        prestarted = ex.flag("first_actor_already_running")
        done_at = {}

        class A(Actor):
            _restart_limit = 0

            def __init__(self, i):
                super().__init__(name=f"a{i}")
                self.i = i

            async def _run(self):
                await asyncio.sleep(dur[self.i])
                done_at[self.i] = asyncio.get_running_loop().time()
                if outcome[self.i] == 1:
                    raise RuntimeError("fail")

        async def scenario():
            acts = [A(0), A(1)]
            if prestarted:
                acts[0].start()
            t0 = asyncio.get_running_loop().time()
            await asyncio.wait_for(run_actors(*acts), 100.0)
            t1 = asyncio.get_running_loop().time()
            return t1 - t0, [a.is_running for a in acts]
        elapsed, running = fx.run_loop(scenario())
        if reach:
            ex.check(False, "reach")
            return
        ex.check(not any(running), "run() returned while an actor is still running")
        ex.check(abs(elapsed - max(dur)) < 1e-6, f"run() returned after {elapsed}s, the last actor finished after {max(dur)}s")
    return fn


def make_actor_restart(reach=False):
    """start() called while a previous run is still being cancelled (its clean-up awaits): the run logic must never run twice concurrently."""
    def fn(ex):
        gap = [0.0, 0.5, 2.0][ex.choice("start_after_cancel_s", 3)]
        use_stop = ex.flag("cancel_via_stop")
        cleanup = [0.0, 1.0][ex.choice("cleanup_s", 2)]
        log = []

        class A(Actor):
            async def _run(self):
                log.append("enter")
                try:
                    await asyncio.sleep(10.0)   # (a restarted run simply ends by itself after 10 s)
                except asyncio.CancelledError:
                    if cleanup:
                        await asyncio.sleep(cleanup)
                    raise
                finally:
                    log.append("exit")

        async def scenario():
            a = A(name="a")
            a.start()
            await asyncio.sleep(1.0)
            stopper = None
            if use_stop:
                stopper = asyncio.create_task(a.stop())
                await asyncio.sleep(0)
            else:
                a.cancel()
            await asyncio.sleep(gap)
            a.start()               # must be a no-op while the first run is still finishing
            await asyncio.sleep(0.1)
            snapshot = list(log)
            if stopper is not None:
                await asyncio.wait_for(stopper, 50.0)
            await asyncio.wait_for(a.stop(), 50.0)
            return snapshot, a.is_running
        snapshot, running = fx.run_loop(scenario())
        if reach:
            ex.check(False, "reach")
            return
        active = 0
        for e in log:
            active += 1 if e == "enter" else -1
            ex.check(active <= 1, f"run logic entered while a previous invocation is still running: {log}")
        ex.check(active == 0 and not running, f"a run is still active after stop(): {log}")
    return fn


def make_cancel_raises(reach=False):
    """The run logic answers its cancellation by raising an Exception (a failing clean-up).  stop() must still return, surface that error, and
    the run logic must not be re-invoked: 'never re-invoked after a cancellation'."""
    def fn(ex):
        limit = [None, 0, 2][ex.choice("restart_limit", 3)]
        cleanup = [0.0, 1.0][ex.choice("cleanup_s", 2)]
        via = ["stop", "cancel_then_wait"][ex.choice("how", 2)]
        log = []

        class A(Actor):
            _restart_limit = limit

            async def _run(self):
                log.append("enter")
                try:
                    await asyncio.sleep(3600.0)
                except asyncio.CancelledError:
                    if cleanup:
                        await asyncio.sleep(cleanup)
                    raise RuntimeError("clean-up failed")   # noqa: B904

        async def scenario():
            a = A(name="a")
            a.start()
            await asyncio.sleep(1.0)
            raised = None
            try:
                if via == "stop":
                    await asyncio.wait_for(a.stop(), 100.0)
                else:
                    a.cancel()
                    await asyncio.wait_for(a.wait(), 100.0)
            except asyncio.TimeoutError:
                raised = "timeout"
            except BaseExceptionGroup as g:
                raised = g
            running = a.is_running
            for t in list(a.tasks):
                t.cancel()
            await asyncio.gather(*a.tasks, return_exceptions=True)
            return raised, running
        raised, running = fx.run_loop(scenario())
        if reach:
            ex.check(False, "reach")
            return
        ex.check(raised != "timeout", f"{via}: did not return (the actor was restarted after its cancellation: {log})")
        ex.check(log == ["enter"], f"run logic re-invoked after a cancellation: {log}")
        ex.check(not running, "actor still running after it was stopped")
        if raised not in (None, "timeout"):
            errs = [e for e in raised.exceptions if not isinstance(e, asyncio.CancelledError)]
            ex.check(len(errs) == 1 and isinstance(errs[0], RuntimeError), f"errors surfaced: {errs}")
        else:
            ex.check(raised is not None, "the error raised by the clean-up was not surfaced")
    return fn


def instances(tier):
    I = Instance
    out = [
        I("reach:runloop", "make_runloop", (2, 1, 2, True), "reachability twin", budget_s=60, validate_every=0),
        I("runloop-K3-await1", "make_runloop", (3, 1), "<= 3 runs per start, 1 await point, the same actor started twice", budget_s=200, validate_every=50),
        I("runloop-K2-await2", "make_runloop", (2, 2), "<= 2 runs per start, 2 await points, 2 starts", budget_s=200, validate_every=50),
        I("service-2", "make_service", (2, True), "2 tasks x 8 behaviours (incl. a BaseException that is neither Exception nor CancelledError, and a task that stops its own service), 5 operations (incl. stop() while another wait() is pending), 2 instants", budget_s=200, validate_every=20),
        I("run-2", "make_run", (), "run() with 2 actors", budget_s=100, validate_every=10),
        I("actor-cancel-raises", "make_cancel_raises", (), "the run logic raises an Exception while being cancelled (3 restart limits, with/without clean-up delay, stop() or cancel()+wait())",
          budget_s=100, validate_every=5),
        I("actor-start-while-stopping", "make_actor_restart", (), "start() while the previous run is being cancelled / cleaning up", budget_s=100, validate_every=5),
    ]
    out += [I("runloop-K4-await2", "make_runloop", (4, 2), "<= 4 runs per start, 2 await points, 2 starts", budget_s=600, validate_every=500),
            I("service-3", "make_service", (3, True), "3 tasks x 8 behaviours, 5 operations", budget_s=600, validate_every=100)]
    if tier != "quick":
        out += [I("runloop-K5-await2", "make_runloop", (5, 2), "<= 5 runs, 2 await points (budgeted)", budget_s=120, validate_every=5000, exhaustive=False)]
    return out
