"""C13 — missing formula inputs propagate as None, or count as zero on request."""
from __future__ import annotations

from harness.common import E, z3, core
from harness import fx
from harness.fx import Power
from symx.runner import Instance

ID = "C13"
LEVEL = "translation_validation"
install = fx.install
FUNCTIONS = [
    "MetricFetcher.apply (NaN / 0.0 for missing values)", "every FormulaStep.apply (Adder..Clipper, Maximizer, Minimizer, Consumption, Production, Divider)",
    "FormulaEvaluator.apply (NaN/inf result -> None)", "FormulaEngine._run (one sample per round)", "HigherOrderFormulaBuilder.build(nones_are_zeros)",
    "FormulaEngine.from_receiver(nones_are_zeros)", "ResampledFormulaBuilder.from_string(nones_are_zeros)",
]
SHIMS = fx.SHIMS + ["arithmetic between a proxy and a concrete NaN/inf follows IEEE rules (x+nan=nan, x*inf=+-inf by sign of x, 0*inf=nan, x/inf=0)"]
ASSUMPTIONS = [
    "programs ENUMERATED; per input the kind {finite real, None, NaN, +inf, -inf} and the nones_are_zeros flags are symbolic choices (all combinations explored), "
    "finite values are symbolic reals",
    "reference: 'missing' is absorbing on streams not configured as zero, counts as 0 on configured streams; division by zero gives None; otherwise the arithmetic value",
    "a virtual-time receive timeout of 5 s without output = 'no sample emitted for the timestamp'",
    "exact reals on the symbolic instances (no overflow there); overflow of finite inputs to inf/NaN is covered by the concrete ieee-* instances (7 extreme values per operand)",
]
BOUNDS = {"quick": "API: every tree with <= 2 operands over + - * / max min plus consumption/production wrappers; strings with <= 2 operands; 5 kinds per operand, all flag settings",
          "thorough": "API and strings with <= 3 operands"}
OUTSIDE = "larger expressions; constants combined with missing values beyond 1 operand; 3-phase engines"
BUDGET = {"quick": 400, "thorough": 1200}
KINDS = ["real", "none", "nan", "inf", "ninf"]
_cache = {}


def programs(family, nmax):
    key = (family, nmax)
    if key in _cache:
        return _cache[key]
    out = []
    if family == "api":
        for n in range(2, nmax + 1):
            for t in fx.shapes(list(range(n)), fx.BIN_API):
                out.append(("api", t, n))
        for u in fx.UN:
            out.append(("api", (u, ("leaf", 0)), 1))
            for t in fx.shapes([0, 1], fx.BIN_API):
                out.append(("api", (u, t), 2))
                out.append(("api", (t[0], (u, t[1]), t[2]), 2))
                out.append(("api", (t[0], t[1], (u, t[2])), 2))
        for op in fx.BIN_API:
            out.append(("api", (op, ("leaf", 0), ("const", 2.0)), 1))
    else:
        for n in range(1, nmax + 1):
            for t in fx.shapes(list(range(n)), fx.BIN_STR):
                out.append(("str", t, n))
    _cache[key] = out
    return out


def make(family, nmax, lo, hi, reach=False):
    progs = programs(family, nmax)[lo:hi]

    def fn(ex):
        k = ex.choice("program", len(progs))
        kind, t, n = progs[k]
        ex.observe("program", fx.show(t))
        compz = ex.flag("compz")  # build(nones_are_zeros=...) / from_string(nones_are_zeros=...)
        leafz, kinds, vals, eff = [], [], [], []
        for i in range(n):
            lz = ex.flag(f"leafz{i}") if kind == "api" else False
            kd = KINDS[ex.choice(f"kind{i}", len(KINDS))]
            leafz.append(lz)
            kinds.append(kd)
            if kd == "real":
                x = ex.real(f"x{i}")
                vals.append(Power.from_watts(x))
                eff.append(x)
            else:
                vals.append(fx.quantity_of(kd, None))
                eff.append(0.0 if (lz or compz) else None)
        try:
            expect = fx.ref_eval(t, eff)
        except (fx.Undefined, ZeroDivisionError):
            expect = None
        if kind == "str":
            out = fx.run_string(fx.render(t, 0), sorted(fx.leaf_ids(t)), dict(enumerate(vals)), zeros=compz)
        else:
            out = fx.run_api(t, n, vals, leafz=leafz, compz=compz)
        if reach:
            ex.check(False, "reach")
            return
        if isinstance(out, str):
            ex.check(False, f"no sample emitted for the timestamp ({out})")
            return
        if expect is None:
            ex.check(out.value is None, "a value is emitted although an input is missing / the result is undefined")
            return
        if out.value is None:
            ex.check(False, "None emitted although every needed input is present (or configured as zero)")
            return
        prop = fx.close_enough(out.value.base_value, expect) if ex.concrete else E(out.value.base_value) == E(expect)
        ex.check(prop, "value differs from the expression with missing-as-zero inputs replaced by 0")
    return fn


IEEE_VALUES = [1e200, -1e200, 1.7e308, -1.7e308, 1e-300, 3.0, 0.0]


def make_ieee(family, nmax, lo, hi):
    """Concrete extreme finite inputs: the result overflows to +-inf (or inf - inf = NaN) although every input is finite.
    The real-number encoding of the other instances cannot overflow; here each path runs the real engine in IEEE arithmetic and
    the reference is Python's own float evaluation of the same tree ('not finite' or undefined -> None)."""
    import math
    progs = programs(family, nmax)[lo:hi]

    def fn(ex):
        k = ex.choice("program", len(progs))
        kind, t, n = progs[k]
        ex.observe("program", fx.show(t))
        xs = [IEEE_VALUES[ex.choice(f"v{i}", len(IEEE_VALUES))] for i in range(n)]
        vals = [Power.from_watts(x) for x in xs]
        try:
            expect = fx.ref_eval(t, xs)
            if math.isnan(expect) or math.isinf(expect):
                expect = None
        except (fx.Undefined, ZeroDivisionError, OverflowError):
            expect = None
        if kind == "str":
            out = fx.run_string(fx.render(t, 0), sorted(fx.leaf_ids(t)), dict(enumerate(vals)), zeros=False)
        else:
            out = fx.run_api(t, n, vals)
        if isinstance(out, str):
            ex.check(False, f"no sample emitted for the timestamp ({out})")
            return
        if expect is None:
            ex.check(out.value is None, f"a value ({out.value}) is emitted although the result is undefined or not finite")
            return
        if out.value is None:
            ex.check(False, "None emitted although the result is defined and finite")
            return
        ex.check(math.isclose(out.value.base_value, expect, rel_tol=1e-9, abs_tol=0.0), f"value {out.value.base_value} differs from Python's float evaluation {expect}")
    return fn


def _chunks(family, nmax, nchunks):
    n = len(programs(family, nmax))
    step = max(1, (n + nchunks - 1) // nchunks)
    return [Instance(f"{family}{nmax}-chunk{ci}", "make", (family, nmax, lo, min(n, lo + step)),
                     f"{family} programs {lo}..{min(n, lo + step) - 1} of {n} (<= {nmax} operands) x 5 kinds per operand x flags",
                     budget_s=900, validate_every=50, programs=min(n, lo + step) - lo, incremental=False)
            for ci, lo in enumerate(range(0, n, step))]


def instances(tier):
    out = [Instance("reach:api2", "make", ("api", 2, 0, 6, True), "reachability twin", budget_s=60, validate_every=0)]
    na, ns = len(programs("api", 2)), len(programs("str", 2))
    out.append(Instance("ieee-api2", "make_ieee", ("api", 2, 0, na), f"all {na} api programs <= 2 operands x 7 extreme finite values per operand (overflow to inf/NaN in IEEE arithmetic)",
                        budget_s=200, validate_every=0, programs=na))
    out.append(Instance("ieee-str2", "make_ieee", ("str", 2, 0, ns), f"all {ns} string programs <= 2 operands x 7 extreme finite values per operand", budget_s=100, validate_every=0, programs=ns))
    if tier == "quick":
        out += _chunks("api", 2, 16) + _chunks("str", 2, 5)
    else:
        out += _chunks("api", 3, 48) + _chunks("str", 3, 16)
    return out
