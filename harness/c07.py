"""C07 — resampled timeline is aligned, gap-free and shared by all series."""
from __future__ import annotations

import asyncio
from datetime import timedelta, timezone

from harness.common import E, EI, TS, z3, core
from harness import fx, resamp
from harness.resamp import rs, Clock
from symx.runner import Instance

from frequenz.quantities import Quantity
from frequenz.sdk.timeseries._base_types import Sample

ID = "C07"
LEVEL = "model_checking"
install = resamp.install
FUNCTIONS = ["Resampler.__init__ (window end + hand-aligned timer start)", "Resampler._calculate_window_end", "Resampler.resample (tick loop, gather, window advance, ResamplingError)",
             "Resampler.add_timeseries/remove_timeseries", "_StreamingHelper.resample", "_ResamplingHelper.resample (empty buffers)"]
SHIMS = resamp.SHIMS + [
    "frequenz.channels.Timer is replaced by a stand-in: constructed with the same arguments, records the hand-set _next_tick_time, and as async iterator yields one tick "
    "per period with an arbitrary symbolic drift (TriggerAllMissed contract: no tick is ever dropped, lateness arbitrary)",
    "async_solipsism virtual-time loop; sink latency reaches the tick loop through timer drift, which is arbitrary; in the slow-sink instance a sink additionally blocks for 0.5/1.5/3 periods of loop time",
]
ASSUMPTIONS = ["now in [0, 1e15] us since the epoch, align_to in [-1e15, 2e15] us (UTC) or one of 18 concrete aware datetimes in zones +01:00/-05:00/+05:30/+05:45/-03:30/UTC, or None, period in [1 us, 1e10 us] (symbolic, non-linear integer arithmetic)",
               "tick loop: period 1 s, drift of each tick symbolic in [0, 5 periods]", "exact integer microsecond arithmetic as in CPython's datetime"]
BOUNDS = {"quick": "(a) alignment for every now/align_to/period; (b) 3 series (one added after the first tick) x 4 ticks; sink failure at a symbolic tick followed by removal and restart",
          "thorough": "(b) 4 series x 6 ticks, failures at two ticks"}
OUTSIDE = "the real frequenz.channels.Timer and the wall clock; MovingWindow's own resampler wiring"
BUDGET = {"quick": 300, "thorough": 600}
PUS = 1_000_000


class StubTimer:
    instances = []

    def __init__(self, interval, policy, **kw):
        self.interval, self.policy = interval, policy
        self._next_tick_time = None
        self.drifts = []
        StubTimer.instances.append(self)

    def __aiter__(self):
        return self

    async def __anext__(self):
        if not self.drifts:
            raise StopAsyncIteration
        d = self.drifts.pop(0)
        Clock.now = Clock.now + self.interval + d  # wall clock passes: one period plus the lateness
        return d

    def reset(self, **kw):
        pass

    def stop(self):
        pass


TZ_OFFSETS_MIN = [60, -300, 330, 345, -210, 0]


def make_window_end(aligned, reach=False, tz=False):
    """tz: align_to is a concrete aware datetime expressed in a non-UTC zone (one of TZ_OFFSETS_MIN, any of 3 wall-clock instants);
    the grid must be anchored on the *instant* it denotes."""
    def fn(ex):
        now = ex.dt("now", 0, 10**15)
        per = ex.td("period", 1, 10**10)
        if tz:
            from datetime import datetime
            off = TZ_OFFSETS_MIN[ex.choice("tz_offset", len(TZ_OFFSETS_MIN))]
            wall = [(2024, 1, 1, 0, 0, 0, 0), (2031, 6, 30, 23, 59, 59, 999999), (1999, 12, 31, 12, 0, 0, 1)][ex.choice("wall", 3)]
            al = datetime(*wall, tzinfo=timezone(timedelta(minutes=off)))
        else:
            al = ex.dt("align_to", -10**15, 2 * 10**15) if aligned else None
        Clock.now = now
        StubTimer.instances.clear()
        rs.Timer = StubTimer

        async def scenario():
            cfg = rs.ResamplerConfig(resampling_period=per, align_to=al)
            r = rs.Resampler(cfg)
            loop_now_us = round(asyncio.get_running_loop().time() * 1e6)
            return r, loop_now_us
        r, loop_now_us = fx.run_loop(scenario())
        if reach:
            ex.check(False, "reach")
            return
        we = r._window_end
        tmr = StubTimer.instances[-1]
        ex.observe("window_end", we)
        nowu, weu, peru = EI(now), EI(we), EI(per)
        ex.check(z3.And(weu >= nowu, weu <= nowu + 2 * peru), "first window end is before creation or more than two periods after it")
        if aligned:
            alu = z3.IntVal(core.dt_us(al)) if tz else EI(al)
            ex.check((weu - alu) % peru == 0, "first window end is not on the align_to grid")
        else:
            ex.check(weu == nowu + peru, "without align_to the first window must end one period after creation")
        # the hand-set timer start must coincide with the first window end
        ex.check(EI(tmr._next_tick_time) - loop_now_us == weu - nowu, "timer's first tick does not coincide with the first window end")
        ex.check(EI(tmr.interval) == peru, "timer interval differs from the resampling period")
    return fn


def make_ticks(nser, nticks, fail=False, reach=False, add_in_sink=False, slow=False):
    """slow: the sink of series 1 takes 0.5 / 1.5 / 3 periods (loop time) to accept the sample of a symbolic tick.
    add_in_sink: the last series is added from inside a sink, i.e. while resample() is suspended in its gather over all series."""
    def fn(ex):
        now = ex.dt("now", 0, 10**15)
        al = ex.dt("align_to", 0, 10**15)
        Clock.now = now
        rs.Timer = StubTimer
        drifts = [ex.td(f"drift{k}", 0, 5 * PUS) for k in range(nticks)]
        fail_tick = ex.choice("fail_tick", nticks) if fail else None
        slow_tick = ex.choice("slow_tick", nticks) if slow else None
        latency = [0.5, 1.5, 3.0][ex.choice("sink_latency", 3)] if slow else 0.0
        got = [[] for _ in range(nser)]
        tick_no = [0]

        async def src():
            await asyncio.Future()
            yield None  # pragma: no cover

        holder = {}

        def mk_sink(i):
            async def sink(s):
                if fail and i == 0 and tick_no[0] == fail_tick:
                    raise RuntimeError("sink failed")
                if slow and i == 1 and tick_no[0] == slow_tick:
                    await asyncio.sleep(latency)   # a slow consumer: the sample is accepted only now
                got[i].append(s.timestamp)
                if add_in_sink and i == 0 and tick_no[0] == 0:
                    await asyncio.sleep(0)   # the gather is pending: a series is added right now
                    holder["r"].add_timeseries(f"s{nser - 1}", holder["srcs"][nser - 1], mk_sink(nser - 1))
            return sink

        async def scenario():
            cfg = rs.ResamplerConfig(resampling_period=timedelta(seconds=1), align_to=al)
            r = rs.Resampler(cfg)
            w0 = r._window_end
            srcs = [src() for _ in range(nser)]
            holder["r"], holder["srcs"] = r, srcs
            for i in range(nser - 1):
                r.add_timeseries(f"s{i}", srcs[i], mk_sink(i))
            for k in range(nticks):
                if k == 1 and not add_in_sink:
                    r.add_timeseries(f"s{nser - 1}", srcs[nser - 1], mk_sink(nser - 1))  # series added while running
                tick_no[0] = k
                r._timer.drifts = [drifts[k]]
                try:
                    await r.resample()
                except rs.ResamplingError as e:
                    for s_ in list(e.exceptions):
                        r.remove_timeseries(s_)
            await r.stop()
            return w0
        w0 = fx.run_loop(scenario())
        if reach:
            ex.check(False, "reach")
            return
        ex.observe("series", got)
        for i, g in enumerate(got):
            first = 0 if i < nser - 1 else 1
            if fail and i == 0:
                exp = list(range(first, fail_tick))
            else:
                exp = list(range(first, nticks))
            ex.check(len(g) == len(exp), f"series {i} received {len(g)} samples, expected {len(exp)}")
            for ts, j in zip(g, exp):
                ex.check(EI(ts) == EI(w0) + j * PUS, f"series {i}: sample for tick {j} is not stamped first_window_end + {j} periods")
    return fn


def make_concrete(kind, nticks=8):
    """Concrete timelines (real datetimes: IEEE arithmetic and real tzinfo semantics of the code, which the integer encoding abstracts).
    'far': align_to centuries away from now (year 1 / 2300), now with a microsecond component: the first window end must be exactly on the grid.
    'dst': align_to in a zone with a variable UTC offset (Europe/Berlin), creation shortly before a DST change, 15 min period, nticks ticks:
    every tick must be exactly one period after the previous one as an INSTANT."""
    from datetime import datetime

    def fn(ex):
        utc = timezone.utc
        if kind == "far":
            al = [datetime(1, 1, 1, tzinfo=utc), datetime(2300, 1, 1, tzinfo=utc), datetime(1970, 1, 1, tzinfo=utc)][ex.choice("align_to", 3)]
            per = [timedelta(seconds=7), timedelta(seconds=1), timedelta(milliseconds=300), timedelta(microseconds=1_500_001)][ex.choice("period", 4)]
            now = datetime(2024, 5, 17, 13, 7, 11, tzinfo=utc) + ex.choice("now_step", 12) * timedelta(microseconds=83_333_337)
            nt = 0
        else:
            try:
                from zoneinfo import ZoneInfo
                zone = ZoneInfo("Europe/Berlin")
            except Exception:  # noqa: BLE001  (no tz database: the instance degenerates to a fixed offset)
                zone = timezone(timedelta(hours=1))
            al = datetime(2023, 1, 1, 0, 7, tzinfo=zone)
            per = timedelta(minutes=15)
            base = [datetime(2023, 10, 29, 0, 20, tzinfo=utc), datetime(2023, 3, 26, 0, 20, tzinfo=utc), datetime(2023, 7, 1, 12, 0, tzinfo=utc)][ex.choice("season", 3)]
            now = base + ex.choice("now_step", 4) * timedelta(minutes=4, seconds=1)
            nt = nticks
        Clock.now = now
        StubTimer.instances.clear()
        rs.Timer = StubTimer
        got = []

        async def src():
            await asyncio.Future()
            yield None  # pragma: no cover

        async def sink(s_):
            got.append(s_.timestamp)

        async def scenario():
            r = rs.Resampler(rs.ResamplerConfig(resampling_period=per, align_to=al))
            w0 = r._window_end
            r.add_timeseries("s", src(), sink)
            for _ in range(nt):
                r._timer.drifts = [timedelta(0)]
                await r.resample()
            await r.stop()
            return w0
        w0 = fx.run_loop(scenario())
        w0u, alu = w0.astimezone(utc), al.astimezone(utc)
        ex.observe("first_window_end", str(w0u))
        ex.check((w0u - alu) % per == timedelta(0), f"first window end {w0u} is not on the grid align_to + k * period")
        ex.check(now <= w0u <= now + 2 * per, "first window end is before creation or more than two periods after it")
        ex.check(len(got) == nt, f"{len(got)} samples for {nt} ticks")
        for j, ts in enumerate(got):
            ex.check(ts.astimezone(utc) == w0u + j * per, f"tick {j} is stamped {ts.astimezone(utc)}, expected {w0u + j * per} (first window end + {j} periods)")
    return fn


def instances(tier):
    I = Instance
    out = [
        I("reach:window-end", "make_window_end", (True, True), "reachability twin", budget_s=60, validate_every=0),
        I("window-end-aligned", "make_window_end", (True,), "symbolic now / align_to / period", budget_s=200, timeout_ms=60000, validate_every=1, max_validate=20),
        I("window-end-tz", "make_window_end", (True, False, True), "align_to is an aware datetime in a non-UTC zone (6 offsets x 3 wall-clock instants), symbolic now / period",
          budget_s=150, timeout_ms=30000, validate_every=1, max_validate=20),
        I("concrete-far-align", "make_concrete", ("far",), "concrete timeline: align_to in year 1 / 2300 / 1970, 4 periods, 12 creation instants with microsecond components", budget_s=60, validate_every=0),
        I("concrete-dst", "make_concrete", ("dst", 8), "concrete timeline: align_to in Europe/Berlin, creation 40 min before a DST change (both directions) or in summer, 15 min period, 8 ticks",
          budget_s=60, validate_every=0),
        I("window-end-unaligned", "make_window_end", (False,), "align_to=None", budget_s=100, validate_every=1),
        I("ticks-3x4", "make_ticks", (3, 4), "3 series (one added after the first tick), 4 ticks, symbolic drifts", budget_s=200, validate_every=5),
        I("ticks-3x4-sinkfail", "make_ticks", (3, 4, True), "a sink raises at a symbolic tick, series removed, loop restarted", budget_s=200, validate_every=5),
        I("ticks-3x4-slow-sink", "make_ticks", (3, 4, False, False, False, True), "one sink takes 0.5 / 1.5 / 3 periods to accept the sample of a symbolic tick",
          budget_s=200, validate_every=5),
        I("ticks-3x4-add-during-gather", "make_ticks", (3, 4, False, False, True), "a series is added while resample() is suspended in its gather (from a sink)",
          budget_s=200, validate_every=5),
    ]
    if tier != "quick":
        out += [I("ticks-4x6", "make_ticks", (4, 6), "4 series, 6 ticks", budget_s=400, validate_every=20),
                I("ticks-4x6-sinkfail", "make_ticks", (4, 6, True), "4 series, 6 ticks, sink failure", budget_s=400, validate_every=20)]
    return out
