#!/bin/sh
# Build the overlay venv used by every check (offline: wheels from /opt/veriftools/wheels).
# /verif/.venv = fresh venv of /venv's interpreter + .pth pointing at /venv's site-packages and /repo/src,
# plus z3-solver / cvc5 / crosshair-tool.  Idempotent.
set -e
cd "$(dirname "$0")"
V=/verif/.venv
if [ -x "$V/bin/python" ] && "$V/bin/python" -c "import z3, cvc5, frequenz.sdk" >/dev/null 2>&1; then
  exit 0
fi
rm -rf "$V"
/venv/bin/python -m venv "$V"
SP=$("$V/bin/python" -c "import sysconfig; print(sysconfig.get_paths()['purelib'])")
printf '%s\n%s\n' /venv/lib/python3.12/site-packages /repo/src > "$SP/_overlay.pth"
PIP_NO_INDEX=1 "$V/bin/python" -m pip install -q --no-index --find-links /opt/veriftools/wheels z3-solver cvc5 crosshair-tool >/dev/null 2>&1 || \
PIP_NO_INDEX=1 "$V/bin/python" -m pip install -q --no-index --find-links /opt/veriftools/wheels z3-solver cvc5
"$V/bin/python" -c "import z3, cvc5, frequenz.sdk; print('overlay venv ready', z3.get_version_string())"
