# executed by gen_manifest.py: claim(...) per built check, NA[...] for the rest
for _p in ALL:
    NA[_p] = "check not built yet in this session (see DESIGN.md for the plan)"
NA["C20"] = ("exactly-once delivery across the asyncio task hand-over and third-party frequenz.channels buffering has no arithmetic/"
             "data-structure content a solver could decide; only the schedule could be symbolic, which would be enumeration of concrete event-loop runs "
             "(a different technique) — DESIGN.md §5")

claim("C03", "model_checking",
      "Every feasible path of the real Matryoshka.calculate_target_power/_calc_target_power/drop_old_proposals is explored for <=2 live proposals with every "
      "power, bound, None pattern, creation time and loop time symbolic; z3 proves on each path that the target is inside the inclusion bounds and outside the "
      "exclusion zone, equals the target of a fresh instance fed only the live proposals (other arrival order, replaced proposals), and that expiry at 60 s is exact. "
      "Bounded (2 proposals exhaustive, 3 budgeted in thorough), over exact reals.",
      "trusted: z3, the proxy semantics (validated per run by re-executing sampled paths on plain floats), real arithmetic instead of IEEE floats",
      "DESIGN.md §4 C03")
