# executed by gen_manifest.py: claim(...) per built check, NA[...] for the rest
NA["C20"] = ("exactly-once delivery across the asyncio task hand-over and third-party frequenz.channels buffering has no arithmetic/"
             "data-structure content a solver could decide; only the schedule could be symbolic, which would be enumeration of concrete event-loop runs "
             "(a different technique) - DESIGN.md section 5")
TV = "translation validation per program: programs/topologies enumerated, the real builders/generators and the real evaluator run on symbolic input values (symx proxies), z3 proves the output term equal to the reference term for all values; counterexamples replayed on plain floats"
TRUST = "trusted: z3 5.1.0, the proxy semantics (re-validated on every run by re-executing sampled paths on plain floats), exact real/integer arithmetic instead of IEEE floats; bounds in evidence coverage.bounds"

claim("C01", "model_checking",
      "All feasible paths of the real BatteryDistributionAlgorithm.distribute_power (and BatteryManager._distribute_power for the manager instances) are explored with every "
      "capacity, SoC, limit, bound and the request symbolic; on each path z3 proves set-points + remainder = request (1e-6 relative), sign of every set-point and of the remainder. "
      "Exhaustive for 1 group (1x1 incl. exponents 0 and 2, 1x2, 2x1 shapes, both directions) and 2 groups of 1x1; 3 groups (concrete SoC data, which makes every share linear) and 2 groups x 2 inverters are budgeted (stated in evidence).", TRUST, "DESIGN.md section 4 C01")
claim("C02", "model_checking",
      "Same exploration as C01 with the bound assertions: each inverter set-point is 0 or inside [exclusion, inclusion] (clipped by the battery), each group total is 0 or inside the "
      "aggregated battery bounds, a group without SoC headroom gets 0; boundary requests (exactly the advertised exclusion / inclusion bound) as dedicated instances. "
      "One open known finding (greedy split over several inverters) is excluded by a region predicate, everything else is reported.", TRUST, "DESIGN.md section 4 C02")
claim("C03", "model_checking",
      "Every feasible path of the real Matryoshka.calculate_target_power/_calc_target_power/drop_old_proposals is explored for <=2 live proposals with every "
      "power, bound, None pattern, creation time and loop time symbolic; z3 proves on each path that the target is inside the inclusion bounds and outside the "
      "exclusion zone, equals the target of a fresh instance fed only the live proposals (other arrival order, replaced proposals, equal priorities with colliding hash slots), "
      "and that expiry at 60 s is exact, also with two component groups served by one instance. 2 proposals exhaustive, 3 budgeted in thorough.", TRUST, "DESIGN.md section 4 C03")
claim("C04", "model_checking",
      "Relational check between three pieces of the real code (_calc_target_power, get_status, _Report.adjust_to_bounds) under a declaratively stated conflict-free precondition: "
      "the target is the admissible value closest to the lowest-priority preference, the reported bounds are the declared intersection carved by the exclusion zone, "
      "adjust_to_bounds contains the target, an empty proposal at any priority changes nothing. All values symbolic; 1 bound-setter + 1 preference (also with symbolic bounds of its own) exhaustive in quick, 2 bound-setters + 1 preference exhaustive in thorough.", TRUST, "DESIGN.md section 4 C04")
claim("C05", "translation_validation", TV + ". Strings (Tokenizer + shunting yard) with <=4 operands in 4 renderings, operator API trees with <=3 operands plus wrappers/constants, "
      "larger ones by operator subsets; reference = Python's own evaluation of the same expression.", TRUST, "DESIGN.md section 4 C05")
claim("C06", "model_checking",
      "The real FormulaEvaluator/FormulaEngine run on a virtual-time event loop with symbolic per-stream first timestamps (proxy datetimes used as the evaluator's own dict keys) and "
      "symbolic values; the output value term reveals which (stream, sample) pairs were combined; z3 proves timestamp and value of every output for every offset vector under 4 delivery modes; the same for FormulaEngine3Phase over three per-phase engines; interleave instances make the schedule itself symbolic (which stream delivers next, whether the engine runs before the next delivery, after how many deliveries the consumer subscribes) and exhaust every FIFO-preserving schedule of 2 streams x 3 samples (quick) / 3 x 2 and 2 x 4 (thorough).",
      TRUST + "; schedules beyond those bounds are covered by a Kahn-network argument that is stated, not checked", "DESIGN.md section 4 C06")
claim("C07", "model_checking",
      "Resampler.__init__/_calculate_window_end executed with symbolic now, align_to and period (non-linear integer arithmetic): alignment, range and the hand-set timer start are proved; "
      "the real resample() tick loop is run with a stand-in timer yielding arbitrary symbolic drifts, series added while running (between ticks and while the tick's gather is pending), a failing sink, a sink blocking for several periods; align_to also as concrete aware datetimes in non-UTC zones; concrete timelines with align_to centuries away and in a zone with DST changes (real datetime/tzinfo semantics).", TRUST + "; the real frequenz.channels Timer is replaced by a stand-in with the TriggerAllMissed contract",
      "DESIGN.md section 4 C07")
claim("C08", "model_checking",
      "The real _ResamplingHelper/_StreamingHelper are run with symbolic sample timestamps, validity kinds and tick time; a recording resampling function shows exactly which samples were "
      "used; z3 proves the half-open relevance interval at both edges, the buffer limit, the None/NaN filter and None-ness of the output; burst and period-estimation instances included; concrete present-day timelines with periods not representable in binary run the code's float arithmetic in IEEE (bounded enumeration of edge +-1 us cases, labelled ieee-*).",
      TRUST, "DESIGN.md section 4 C08")
claim("C09", "model_checking",
      "The real OrderedRingBuffer (list container) is executed on symbolic update timestamps (microsecond resolution, any order) and symbolic datetime / index queries and compared with an "
      "executable reference map slot -> value after every update: acceptance, count_valid, gaps, oldest/newest, count_covered, every element of every window and MovingWindow.at/[]; deeper histories (capacity 4, 4 updates) with update timestamps enumerated on the slot grid; sampling periods 1 s, 200 ms, 300 ms, 70 ms, where the slot-grid / half-slot-grid instances run the code's float-second arithmetic in IEEE on concrete datetimes.", TRUST, "DESIGN.md section 4 C09")
claim("C10", "model_checking",
      "Actor._run_loop is driven by hand at every suspension point with a symbolic action and a symbolic restart limit (z3 arithmetic decides restart/no restart); BackgroundService.stop/wait/cancel "
      "and run() are executed with real tasks on a virtual-time loop over symbolic task behaviours and operations. The solver's role is mostly the case split (stated).", TRUST, "DESIGN.md section 4 C10")
claim("C11", "model_checking",
      "The real PowerManagingActor handlers (_send_updated_target_power, _send_reports, bounds update, PartialFailure resend, expiry) are applied for every event sequence of bounded length with "
      "all powers and bounds symbolic, both by calling the handlers and by feeding the real _run select loop / _bounds_tracker task over real channels (late PartialFailure, expiry by the real timer); after every request z3 proves request = regular target + operating-point target as reported and request inside the latest bounds.", TRUST, "DESIGN.md section 4 C11")
claim("C12", "translation_validation", TV + ". All 2609 topologies with <=7 components from a grammar (plus 21 with batteries sharing inverters) (quick; <=8 thorough) x 3 evaluation modes (no fallback, fallback configured with valid primaries, primaries replaced by "
      "their generated fallback formulas); 8 identities per topology over symbolic device powers and unmetered loads; additionally on graph objects that held another topology before (all formulas generated, all predicates queried) and were refreshed with refresh_from().", TRUST, "DESIGN.md section 4 C12")
claim("C13", "translation_validation", TV + ". Per input the kind (finite, None, NaN, +inf, -inf) and the nones_are_zeros flags are symbolic choices, so every combination is explored for every program with <=2 operands "
      "(<=3 thorough); a round without output sample is a violation.", TRUST, "DESIGN.md section 4 C13")
claim("C14", "model_checking",
      "One inductive step of the real _run/_handle_task_completion/_process_request from every pre-state satisfying 'pending implies in flight' (re-established and checked), plus every event sequence of "
      "bounded length with real tasks and done-callbacks on a virtual-time loop, including a request arriving in the loop iteration in which the in-flight distribution finishes. Finite state: the solver does the case split (stated).",
      TRUST, "DESIGN.md section 4 C14")
claim("C15", "model_checking",
      "BatteryManager._distribute_power/_set_distributed_power/_parse_result and PVManager.distribute_power/_set_api_power run on a virtual-time loop with symbolic set-points/bounds/request and a symbolic "
      "6-way outcome per set_power call (incl. slow success and timeout); z3 proves succeeded + failed + excess = request, failed_power = sum of failed set-points, component sets, and calls = distribution; two concurrent PV requests for disjoint inverter sets on one manager.", TRUST, "DESIGN.md section 4 C15")
claim("C16", "model_checking",
      "The real BatteryStatusTracker._run dispatch loop and BlockingStatus are driven through a stand-in select/Timer with a symbolic clock: for every sequence of <=4 events (messages with symbolic age and fault, "
      "timers, set-power results) the sent status equals a reference (never usable while a disqualifying fact holds; exponential blocking; notify on change only); ComponentPoolStatusTracker._update_status over every sequence of 4 notifications, and the real pool tracker (real constructor and channels, probe trackers) over 3 set-power outcomes published back to back or spaced.", TRUST + "; stand-in timer contract stated in evidence", "DESIGN.md section 4 C16")
claim("C17", "model_checking",
      "One symbolic data set is given to both real code paths (PowerBoundsCalculator.calculate and BatteryManager._get_bounds/_check_request): z3 proves that every power admitted by the advertised bounds is "
      "accepted for both adjust_power settings, that inclusion bounds are identical and that an admitted power is at least the sum of the groups' minimum powers. 5 topologies exhaustive.", TRUST, "DESIGN.md section 4 C17")
claim("C18", "model_checking",
      "SoCCalculator.calculate / CapacityCalculator.calculate on symbolic capacities, SoCs, limits, missing-metric patterns and working subsets: None-ness, range, weighted mean, capacity sum, and (pairs of runs) "
      "monotonicity and scale invariance are proved over non-linear real arithmetic; plus the fetcher's NaN dropping and SendOnUpdate's cache eviction.", TRUST, "DESIGN.md section 4 C18")
claim("C19", "model_checking",
      "The real MetricFetcher inside a real formula on a virtual-time loop, with a fake FallbackMetricFetcher subclass: validity of every primary/fallback sample, per-round delivery order and the point at which "
      "the primary stream is closed are symbolic; every output is compared with the documented switching rule; a formula with a second plain term exposes misalignment; delivery lock-step, fallback 1-2 rounds early, in pairs, or as an initial burst; missing samples as None or NaN-valued; the primary closed within a round or between rounds, or raising a plain ReceiverError; also with the real FallbackFormulaMetricFetcher over a real fallback engine, and end to end through the real formula generators (grid, grid reactive, PV, battery, producer power with allow_fallback) on a real component graph with the harness as resampling actor serving different symbolic values per (component, metric).", TRUST, "DESIGN.md section 4 C19")
