#!/usr/bin/env python3
"""Regenerate /verif/MANIFEST.json from the table below (keeps it valid at all times)."""
import json, os
HERE = os.path.dirname(os.path.dirname(os.path.abspath(__file__)))
ALL = [f"C{n:02d}" for n in range(1, 21)]
TECH = "bounded symbolic execution of the real Python functions on z3-backed proxy values (in-house engine symx): all feasible paths explored, each assertion discharged by z3 as path-condition ∧ ¬property; counterexamples replayed on plain floats"
TECH_IEEE = TECH + "; additionally, labelled concrete-value instances (ieee-*, grid-*, upsample-*, concrete-*) enumerate a finite grid of inputs to run the code's float / tzinfo arithmetic in IEEE against an exact integer oracle - bounded enumeration, not a solver verdict (DESIGN.md 2.5)"
IEEE_IDS = {"C02", "C07", "C08", "C09", "C13"}
CLAIMS = {}


def claim(pid, category, text, note, design_ref, technique=None):
    technique = technique or (TECH_IEEE if pid in IEEE_IDS else TECH)
    CLAIMS[pid] = dict(category=category, text=text, note=note, design_ref=design_ref, technique=technique)


NA = {}
exec(open(os.path.join(HERE, "tools", "claims.py")).read())

checks = []
for pid in ALL:
    if pid not in CLAIMS:
        continue
    c = CLAIMS[pid]
    checks.append({
        "property_id": pid,
        "quick_cmd": f"./check {pid} --tier quick",
        "thorough_cmd": f"./check {pid} --tier thorough",
        "evidence_file": f"/verif/evidence/{pid}.json",
        "replay_cmd_template": f"./check {pid} --replay {{path}}",
        "engine": "symx",
        "level_claimed": {"category": c["category"], "text": c["text"], "design_ref": c["design_ref"]},
        "level_note": c["note"],
        "technique": c["technique"],
    })
man = {
    "version": 1,
    "setup_cmd": "./setup.sh",
    "hooks": {
        "guard": "FREQUENZ_SDK_VERIF",
        "enable": "no hooks: the checks import /repo/src unmodified (the guard variable is never read by /repo)",
        "baseline_off_cmd": "cd /repo && /venv/bin/python -m pytest -ra -q -p no:cacheprovider --timeout=900 --continue-on-collection-errors",
        "source_commits": [],
        "add_only": True,
    },
    "engines": [{
        "name": "symx", "path": "/verif/symx",
        "serves_properties": sorted(CLAIMS),
        "kind_free_text": "solver-based: concolic symbolic execution of the repository's own Python functions on proxy values "
                          "(z3 Real/Int terms), z3 5.1.0 decides every branch flip and every assertion; cvc5 1.4.0 re-decides a sample of unsat queries in thorough tiers",
    }],
    "checks": checks,
    "not_applicable": [{"property_id": p, "reason": NA[p]} for p in ALL if p not in CLAIMS],
    "notes": "exit codes: 0 held on everything explored (evidence says whether the bound was exhausted), 1 VIOLATION (counterexample replayed on plain floats against the real code), 2 harness/encoding error. Bounds per property are in evidence coverage.bounds and DESIGN.md.",
}
json.dump(man, open(os.path.join(HERE, "MANIFEST.json"), "w"), indent=1, ensure_ascii=False)
print("claimed", sorted(CLAIMS), "n/a", [p for p in ALL if p not in CLAIMS])
