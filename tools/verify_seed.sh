#!/bin/bash
# verify_seed.sh <PROP> <k> [<srcdir of agent output, default /tmp/wt/PROP/_out>]
# Confirms in a scratch worktree: patch applies, baseline suite green with it, demo fails with it and passes without it.
# On success copies to /verif/seeded/<PROP>-<k>/ (patch.diff, demo.py, meta.json).
set -u
P=$1; K=$2; OUT=${3:-/tmp/wt/$P/_out}; T=${4:-$K}   # T: index under which the seed is stored
WT=/root/scratch/seed_${P}_${K}_$$
mkdir -p /root/scratch
git -C /repo worktree add -q --detach "$WT" HEAD || exit 2
trap 'git -C /repo worktree remove --force "$WT" >/dev/null 2>&1' EXIT
cd "$WT"
run_demo() { (cd /root/scratch && PYTHONPATH="$WT/src" PYTHONDONTWRITEBYTECODE=1 timeout 120 /venv/bin/python "$OUT/demo$K.py" >/dev/null 2>&1); echo $?; }
clean=$(run_demo)
if ! git apply "$OUT/mutant$K.diff"; then echo "RESULT $P-$K patch does not apply (after fix commits?)"; exit 3; fi
mut=$(run_demo)
base=$(python3 /verif/tools/baseline.py "$WT" | tail -1)
echo "RESULT $P-$T demo_clean_exit=$clean demo_mutant_exit=$mut baseline: $base"
if [ "$clean" = 0 ] && [ "$mut" != 0 ] && echo "$base" | grep -q "missing 0"; then
  D=/verif/seeded/$P-$T; mkdir -p "$D"
  cp "$OUT/mutant$K.diff" "$D/patch.diff"; cp "$OUT/demo$K.py" "$D/demo.py"
  python3 - "$OUT/meta$K.json" "$D/meta.json" "$P" "$clean" "$mut" "$base" <<'PY'
import json, sys
src, dst, prop, clean, mut, base = sys.argv[1:7]
try: m = json.load(open(src))
except Exception: m = {}
m["property"] = prop
m["confirmed"] = {"how": "tools/verify_seed.sh in a scratch worktree of /repo HEAD: demo on clean tree, git apply patch, demo again, full baseline suite with the patch",
                  "demo_exit_clean": int(clean), "demo_exit_with_patch": int(mut), "baseline_with_patch": base}
json.dump(m, open(dst, "w"), indent=1)
PY
  echo "KEPT $D"
else
  echo "REJECTED $P-$T"
fi
