#!/usr/bin/env python3
"""Run the pinned baseline suite in a checkout (default /repo) and compare with /root/.vp/BASELINE.json.

usage: baseline.py [checkout_dir]      exit 0 iff every stable_pass test passed.
"""
import json, os, subprocess, sys, tempfile
import xml.etree.ElementTree as ET

root = sys.argv[1] if len(sys.argv) > 1 else "/repo"
base = json.load(open("/root/.vp/BASELINE.json"))
fd, xml = tempfile.mkstemp(suffix=".xml", dir="/root")
os.close(fd)
env = dict(os.environ, PYTHONPATH=os.path.join(root, "src"), PYTHONDONTWRITEBYTECODE="1")
env.pop("FREQUENZ_SDK_VERIF", None)
cmd = ["/venv/bin/python", "-m", "pytest", "-ra", "-q", "-p", "no:cacheprovider", "--timeout=900",
       "--continue-on-collection-errors", f"--junitxml={xml}"]
p = subprocess.run(cmd, cwd=root, env=env, stdout=subprocess.PIPE, stderr=subprocess.STDOUT, text=True)
passed = set()
for tc in ET.parse(xml).getroot().iter("testcase"):
    if not any(c.tag in ("failure", "error", "skipped") for c in tc):
        passed.add(f"{tc.get('classname')}::{tc.get('name')}")
os.unlink(xml)
missing = [t for t in base["stable_pass"] if t not in passed]
print(p.stdout.strip().splitlines()[-1])
print(f"stable_pass {len(base['stable_pass'])}, passed now {len(base['stable_pass']) - len(missing)}, missing {len(missing)}")
for t in missing[:20]:
    print("  MISSING", t)
sys.exit(1 if missing else 0)
