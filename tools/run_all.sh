#!/bin/bash
# run_all.sh <tier> [ids...] : runs the checks sequentially in /verif against /repo, logs under /root/scratch/runall_<tier>/
TIER=${1:-quick}; shift
IDS=${@:-C01 C02 C03 C04 C05 C06 C07 C08 C09 C10 C11 C12 C13 C14 C15 C16 C17 C18 C19}
D=/root/scratch/runall_$TIER; mkdir -p $D
cd /verif
for p in $IDS; do
  s=$(date +%s)
  ./check $p --tier $TIER > $D/$p.log 2>&1; rc=$?
  echo "$p tier=$TIER exit=$rc wall=$(( $(date +%s) - s ))s $(tail -1 $D/$p.log | cut -c1-160)"
done
