#!/bin/bash
# try_seed.sh <seed dir name, e.g. C03-1> [tier]  : apply the seeded patch to /repo, run the property's check, undo.
S=$1; TIER=${2:-quick}; P=${S%%-*}
cd /repo || exit 2
if [ -n "$(git status --porcelain --untracked-files=no)" ]; then echo "/repo not clean"; exit 2; fi
git apply "/verif/seeded/$S/patch.diff" || { echo "patch does not apply"; exit 3; }
cd /verif; ./check "$P" --tier "$TIER" > "/root/scratch/try_$S.log" 2>&1; rc=$?
git -C /repo checkout -- .
echo "SEED $S tier=$TIER exit=$rc $(grep -m1 '^VIOLATION' /root/scratch/try_$S.log) $(grep -m1 'label=' /root/scratch/try_$S.log)"
exit 0
