#!/bin/bash
# seed_matrix.sh [tier] [seeds...] : for every confirmed seed apply it to /repo, run the property's check, undo; record the outcome.
TIER=${1:-quick}; shift
SEEDS=${@:-$(ls /verif/seeded | grep -E '^C[0-9]+-[0-9]+$')}
OUT=/verif/seeded/MATRIX_$TIER.json
# runs on a scratch worktree of /repo HEAD (VERIF_REPO), so /repo itself and /verif/evidence are not touched
WT=/root/scratch/mx_$$
git -C /repo worktree add -q --detach "$WT" HEAD || exit 2
trap 'git -C /repo worktree remove --force "$WT" >/dev/null 2>&1; rm -rf /root/scratch/mx_ev_$$' EXIT
# CHECK=<ID> (optional): run that property's check instead of the seed's own (recorded under "other_checks")
for S in $SEEDS; do
  P=${CHECK:-${S%%-*}}
  git -C "$WT" apply "/verif/seeded/$S/patch.diff" || { echo "$S patch does not apply"; continue; }
  s=$(date +%s)
  (cd /verif && VERIF_REPO="$WT" VERIF_EVIDENCE_DIR=/root/scratch/mx_ev_$$ VERIF_REPLAY_DIR=/root/scratch/mx_replays ./check "$P" --tier "$TIER" > "/root/scratch/try_$S.log" 2>&1); rc=$?
  git -C "$WT" checkout -- .
  w=$(( $(date +%s) - s ))
  inst=$(grep -m1 '^  instance=' /root/scratch/try_$S.log | sed 's/^ *//')
  echo "SEED $S tier=$TIER exit=$rc wall=${w}s $inst"
  python3 - "$OUT" "$S" "$TIER" "$rc" "$w" "$inst" "$P" <<'PY'
import json, sys, os
out, seed, tier, rc, w, inst, chk = sys.argv[1:8]
d = json.load(open(out)) if os.path.exists(out) else {}
rec = {"check": chk, "tier": tier, "exit": int(rc), "detected": int(rc) == 1, "wall_s": int(w), "where": inst}
if chk != seed.split("-")[0]:
    d.setdefault(seed, {"check": seed.split("-")[0], "tier": tier, "exit": None, "detected": False, "wall_s": 0, "where": ""}).setdefault("other_checks", {})[chk] = rec
    json.dump(d, open(out, "w"), indent=1, sort_keys=True)
    sys.exit(0)
prev = d.get(seed, {})
d[seed] = rec
if "other_checks" in prev:
    d[seed]["other_checks"] = prev["other_checks"]
json.dump(d, open(out, "w"), indent=1, sort_keys=True)
m = f"/verif/seeded/{seed}/meta.json"
md = json.load(open(m)); md.setdefault("detection", {})[tier] = d[seed]; json.dump(md, open(m, "w"), indent=1)
PY
done
