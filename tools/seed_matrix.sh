#!/bin/bash
# seed_matrix.sh [tier] [seeds...] : for every confirmed seed apply it to /repo, run the property's check, undo; record the outcome.
TIER=${1:-quick}; shift
SEEDS=${@:-$(ls /verif/seeded | grep -E '^C[0-9]+-[0-9]+$')}
OUT=/verif/seeded/MATRIX_$TIER.json
# runs on a scratch worktree of /repo HEAD (VERIF_REPO), so /repo itself and /verif/evidence are not touched
WT=/root/scratch/mx_$$
git -C /repo worktree add -q --detach "$WT" HEAD || exit 2
trap 'git -C /repo worktree remove --force "$WT" >/dev/null 2>&1; rm -rf /root/scratch/mx_ev_$$' EXIT
for S in $SEEDS; do
  P=${S%%-*}
  git -C "$WT" apply "/verif/seeded/$S/patch.diff" || { echo "$S patch does not apply"; continue; }
  s=$(date +%s)
  (cd /verif && VERIF_REPO="$WT" VERIF_EVIDENCE_DIR=/root/scratch/mx_ev_$$ VERIF_REPLAY_DIR=/root/scratch/mx_replays ./check "$P" --tier "$TIER" > "/root/scratch/try_$S.log" 2>&1); rc=$?
  git -C "$WT" checkout -- .
  w=$(( $(date +%s) - s ))
  inst=$(grep -m1 'instance=' /root/scratch/try_$S.log | sed 's/^ *//')
  echo "SEED $S tier=$TIER exit=$rc wall=${w}s $inst"
  python3 - "$OUT" "$S" "$TIER" "$rc" "$w" "$inst" <<'PY'
import json, sys, os
out, seed, tier, rc, w, inst = sys.argv[1:7]
d = json.load(open(out)) if os.path.exists(out) else {}
d[seed] = {"check": seed.split("-")[0], "tier": tier, "exit": int(rc), "detected": int(rc) == 1, "wall_s": int(w), "where": inst}
json.dump(d, open(out, "w"), indent=1, sort_keys=True)
m = f"/verif/seeded/{seed}/meta.json"
md = json.load(open(m)); md.setdefault("detection", {})[tier] = d[seed]; json.dump(md, open(m, "w"), indent=1)
PY
done
