#!/bin/bash
# seed_matrix.sh [tier] [seeds...] : for every confirmed seed apply it to /repo, run the property's check, undo; record the outcome.
TIER=${1:-quick}; shift
SEEDS=${@:-$(ls /verif/seeded | grep -E '^C[0-9]+-[0-9]+$')}
OUT=/verif/seeded/MATRIX_$TIER.json
cd /repo || exit 2
if [ -n "$(git status --porcelain --untracked-files=no)" ]; then echo "/repo not clean"; exit 2; fi
for S in $SEEDS; do
  P=${S%%-*}
  git -C /repo apply "/verif/seeded/$S/patch.diff" || { echo "$S patch does not apply"; continue; }
  s=$(date +%s)
  (cd /verif && ./check "$P" --tier "$TIER" > "/root/scratch/try_$S.log" 2>&1); rc=$?
  git -C /repo checkout -- .
  w=$(( $(date +%s) - s ))
  inst=$(grep -m1 'instance=' /root/scratch/try_$S.log | sed 's/^ *//')
  echo "SEED $S tier=$TIER exit=$rc wall=${w}s $inst"
  python3 - "$OUT" "$S" "$TIER" "$rc" "$w" "$inst" <<'PY'
import json, sys, os
out, seed, tier, rc, w, inst = sys.argv[1:7]
d = json.load(open(out)) if os.path.exists(out) else {}
d[seed] = {"check": seed.split("-")[0], "tier": tier, "exit": int(rc), "detected": int(rc) == 1, "wall_s": int(w), "where": inst}
json.dump(d, open(out, "w"), indent=1, sort_keys=True)
m = f"/verif/seeded/{seed}/meta.json"
md = json.load(open(m)); md.setdefault("detection", {})[tier] = d[seed]; json.dump(md, open(m, "w"), indent=1)
PY
done
# evidence files were rewritten by runs on a patched tree: they must be regenerated on the clean tree before committing
echo "NOTE: re-run the checks on the clean tree to regenerate /verif/evidence"
