#!/usr/bin/env python3
"""Regenerate the measured tables at the end of DESIGN.md (sections 11 and 12) from /verif/evidence and /verif/seeded/MATRIX_*.json."""
import glob, json, os
HERE = os.path.dirname(os.path.dirname(os.path.abspath(__file__)))
MARK = "<!-- GENERATED TABLES BELOW: tools/report.py -->"
p = os.path.join(HERE, "DESIGN.md")
s = open(p).read()
if MARK in s:
    s = s[: s.index(MARK)]
out = [MARK, "", "## 11. Measured coverage of the committed evidence", "",
       "| id | tier | wall s | instances | exhausted | paths | queries | unknown | assertion queries (unsat/all) | validated replays | exit |", "|---|---|---|---|---|---|---|---|---|---|---|"]
for f in sorted(glob.glob(os.path.join(HERE, "evidence", "quick", "C*.json"))) + sorted(glob.glob(os.path.join(HERE, "evidence", "thorough", "C*.json"))):
    e = json.load(open(f)); c = e["coverage"]
    main = [i for i in c["instances"] if not i["name"].startswith("reach:")]
    out.append(f"| {e['property_id']} | {e['tier']} | {e['wall_s']:.0f} | {len(main)} | {sum(1 for i in main if i['status'] == 'exhausted')} | {c['states']} | "
               f"{c['queries']['total']} | {c['queries']['unknown']} | {c['discharged']}/{c['obligations']} | {c['traces_validated_against_impl']} | {e.get('exit_code')} |")
out += ["", "## 12. Seeded defects: detection matrix", ""]
for f in sorted(glob.glob(os.path.join(HERE, "seeded", "MATRIX_*.json"))):
    d = json.load(open(f)); tier = os.path.basename(f)[7:-5]
    out += [f"Tier `{tier}` ({sum(1 for v in d.values() if v['detected'])} of {len(d)} seeds detected by the check of their own property):", "",
            "| seed | summary | needs | detected | instance / assertion |", "|---|---|---|---|---|"]
    for k in sorted(d):
        try:
            m = json.load(open(os.path.join(HERE, "seeded", k, "meta.json")))
        except Exception:
            m = {}
        cut = lambda x, n: (str(x).replace("|", "/").replace("\n", " ")[:n] + ("…" if len(str(x)) > n else ""))
        others = ", ".join(f"{c}: {'yes' if v['detected'] else 'no'}" for c, v in d[k].get("other_checks", {}).items())
        det = 'yes' if d[k]['detected'] else 'NO (exit %s)' % d[k]['exit']
        if others:
            det += f"; by other checks - {others}"
        out.append(f"| {k} | {cut(m.get('summary', ''), 160)} | {cut(m.get('needs', ''), 140)} | {det} | {cut(d[k].get('where', ''), 150)} |")
    out.append("")
open(p, "w").write(s.rstrip() + "\n\n" + "\n".join(out) + "\n")
print("tables written")
