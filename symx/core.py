"""symx core: proxy-based symbolic execution of real Python code with z3.

The code under test runs unmodified on *proxy* values (SymReal/SymInt/SymDT/SymTD).  Arithmetic
on proxies builds z3 terms; every comparison / truth test consults the current Explorer, which
explores all feasible paths (concolic DFS) and discharges assertions with the solver.

Engine exceptions derive from BaseException on purpose: the code under test has
``except Exception`` loops that must not swallow them.
"""
from __future__ import annotations

import fractions
import math as _math
import time
import types as _types

import z3

# originals, captured before anything is patched
_om = _types.SimpleNamespace(
    **{n: getattr(_math, n) for n in ("isnan", "isinf", "isfinite", "isclose", "ceil", "floor", "nan", "inf")}
)


class Abort(BaseException):
    """Path abandoned (assumption false, frontier hit, infeasible)."""


class Violation(BaseException):
    def __init__(self, label, values, detail=None):
        self.label, self.values, self.detail = label, values, detail


class _Candidate(BaseException):
    """A sat model for a violated assertion; reproduced on plain values by explore() after the harness has unwound
    (the harness may be inside a running event loop, where a nested replay cannot run)."""

    def __init__(self, label, values):
        self.label, self.values = label, values


class HarnessError(BaseException):
    """Encoding error: never a pass, never a violation."""


class NonFinite(Exception):
    pass


_cur = None
ACTIVE_KNOWN = None  # set of known-finding ids listed as open in /verif/known_findings.json (loaded lazily)


def active_known():
    global ACTIVE_KNOWN
    if ACTIVE_KNOWN is None:
        import json
        import os

        p = os.path.join(os.path.dirname(os.path.dirname(os.path.abspath(__file__))), "known_findings.json")
        try:
            ACTIVE_KNOWN = {e["id"] for e in json.load(open(p)).get("findings", []) if e.get("status") == "open"}
        except Exception:  # noqa: BLE001
            ACTIVE_KNOWN = set()
    return ACTIVE_KNOWN


def cur():
    return _cur


def set_cur(e):
    global _cur
    _cur = e


# --------------------------------------------------------------------------------------
# z3 helpers


def frac_of(x, exact=False):
    """Fraction for a concrete python number (code constants are decimal literals)."""
    if type(x) is int:
        return fractions.Fraction(x)
    f = fractions.Fraction(x)
    if exact:
        return f
    g = f.limit_denominator(10**12)
    # keep decimal literals such as 1e-9 or 0.1 exact-as-written; fall back to the binary value
    if float(g) == x:
        return g
    return f


def realval(x, exact=False):
    f = frac_of(x, exact)
    return z3.RealVal(str(f))


def zabs(e):
    return z3.If(e >= 0, e, -e)


def zmax(a, *rest):
    for b in rest:
        a = z3.If(a >= b, a, b)
    return a


def zmin(a, *rest):
    for b in rest:
        a = z3.If(a <= b, a, b)
    return a


def rhe_div(a, q):
    """round-half-even of a/q for q>0 (z3 ints)."""
    fl = a / q
    r = a - fl * q
    return z3.If(2 * r < q, fl, z3.If(2 * r > q, fl + 1, z3.If(fl % 2 == 0, fl, fl + 1)))


def rhe_real(x):
    """round-half-even of a real to an Int."""
    fl = z3.ToInt(x)
    r = x - z3.ToReal(fl)
    half = z3.RealVal("1/2")
    return z3.If(r < half, fl, z3.If(r > half, fl + 1, z3.If(fl % 2 == 0, fl, fl + 1)))


def _lift(x):
    """z3 Real term for a proxy / concrete finite number, else None."""
    t = type(x)
    if t is SymReal:
        return x.e
    if t is SymInt:
        return z3.ToReal(x.e)
    if t is bool:
        return z3.RealVal(1 if x else 0)
    if t is int:
        return z3.RealVal(x)
    if t is float:
        if not _om.isfinite(x):
            raise NonFinite(x)
        c = _cur
        return realval(x, exact=bool(c is not None and c.concrete))
    return None


def E(x):
    """z3 Real term of a proxy or a concrete finite number (oracle side)."""
    r = _lift(x)
    if r is None:
        raise HarnessError(f"E(): not a number: {x!r} ({type(x)})")
    return r


def EI(x):
    """z3 Int term of a SymInt / SymTD / SymDT / int."""
    t = type(x)
    if t is SymInt:
        return x.e
    if t is int:
        return z3.IntVal(x)
    if t is bool:
        return z3.IntVal(int(x))
    if t is SymTD or t is SymDT:
        return x.us
    import datetime as _d

    if t is _d.timedelta:
        return z3.IntVal(td_us(x))
    if t is _d.datetime:
        return z3.IntVal(dt_us(x))
    raise HarnessError(f"EI(): not an int-like: {x!r}")


# --------------------------------------------------------------------------------------
# proxies

_lt = lambda a, b: a < b  # noqa: E731
_le = lambda a, b: a <= b  # noqa: E731
_gt = lambda a, b: a > b  # noqa: E731
_ge = lambda a, b: a >= b  # noqa: E731
_eq = lambda a, b: a == b  # noqa: E731
_ne = lambda a, b: a != b  # noqa: E731


class SymBool:
    __slots__ = ("e",)

    def __init__(self, e):
        self.e = e

    def __bool__(self):
        return _cur.branch(self.e)

    def __invert__(self):
        return SymBool(z3.Not(self.e))


class SymReal:
    __slots__ = ("e",)

    def __init__(self, e):
        self.e = e

    @property
    def __class__(self):
        return float

    def _nonfinite(self, o, opname, rev):
        if _om.isnan(o):
            return _om.nan
        if opname == "add":
            return o
        if opname == "sub":
            return o if rev else -o
        if opname == "mul":
            if _cur.branch(self.e == 0):
                return _om.nan
            return o if _cur.branch(self.e > 0) else -o
        if opname == "div":
            if not rev:
                return 0.0  # x / inf (sign of zero ignored)
            if _cur.branch(self.e == 0):
                raise ZeroDivisionError("float division by zero")
            return o if _cur.branch(self.e > 0) else -o
        raise NotImplementedError(opname)

    def _bin(self, o, f, rev=False, opname=None):
        if type(o) is float and not _om.isfinite(o):
            return self._nonfinite(o, opname, rev)
        b = _lift(o)
        if b is None:
            return NotImplemented
        return SymReal(f(b, self.e) if rev else f(self.e, b))

    def __add__(s, o):
        return s._bin(o, lambda a, b: a + b, False, "add")

    def __radd__(s, o):
        return s._bin(o, lambda a, b: a + b, True, "add")

    def __sub__(s, o):
        return s._bin(o, lambda a, b: a - b, False, "sub")

    def __rsub__(s, o):
        return s._bin(o, lambda a, b: a - b, True, "sub")

    def __mul__(s, o):
        if type(o) is SymTD:
            return o.__mul__(s)
        return s._bin(o, lambda a, b: a * b, False, "mul")

    def __rmul__(s, o):
        return s._bin(o, lambda a, b: a * b, True, "mul")

    def __truediv__(s, o):
        if type(o) is float and not _om.isfinite(o):
            return s._nonfinite(o, "div", False)
        b = _lift(o)
        if b is None:
            return NotImplemented
        if _cur.branch(b == 0):
            raise ZeroDivisionError("float division by zero")
        return SymReal(s.e / b)

    def __rtruediv__(s, o):
        if type(o) is float and not _om.isfinite(o):
            return s._nonfinite(o, "div", True)
        a = _lift(o)
        if a is None:
            return NotImplemented
        if _cur.branch(s.e == 0):
            raise ZeroDivisionError("float division by zero")
        return SymReal(a / s.e)

    def __floordiv__(s, o):
        b = _lift(o)
        if b is None:
            return NotImplemented
        if _cur.branch(b == 0):
            raise ZeroDivisionError("float floor division by zero")
        return SymReal(z3.ToReal(z3.ToInt(s.e / b)))

    def __neg__(s):
        return SymReal(-s.e)

    def __pos__(s):
        return s

    def __abs__(s):
        return SymReal(zabs(s.e))

    def _cmp(s, o, f):
        if type(o) is float and not _om.isfinite(o):
            if _om.isnan(o):
                return f is _ne
            big = o > 0
            return {_lt: big, _le: big, _gt: not big, _ge: not big, _eq: False, _ne: True}[f]
        b = _lift(o)
        if b is None:
            return NotImplemented
        return _cur.branch(f(s.e, b))

    def __lt__(s, o):
        return s._cmp(o, _lt)

    def __le__(s, o):
        return s._cmp(o, _le)

    def __gt__(s, o):
        return s._cmp(o, _gt)

    def __ge__(s, o):
        return s._cmp(o, _ge)

    def __eq__(s, o):
        return s._cmp(o, _eq)

    def __ne__(s, o):
        return s._cmp(o, _ne)

    def __hash__(s):
        return 0

    def __bool__(s):
        return _cur.branch(s.e != 0)

    def __pow__(s, o):
        if type(o) in (int, float) and float(o).is_integer() and 0 <= o <= 4:
            r = z3.RealVal(1)
            for _ in range(int(o)):
                r = r * s.e
            return SymReal(r)
        raise NotImplementedError("pow with non-integer or large exponent")

    def __round__(s, nd=None):
        if nd is not None:
            raise NotImplementedError("round(x, nd)")
        return SymInt(rhe_real(s.e))

    def __trunc__(s):
        return SymInt(z3.If(s.e >= 0, z3.ToInt(s.e), -z3.ToInt(-s.e)))

    def is_integer(s):
        return _cur.branch(z3.ToReal(z3.ToInt(s.e)) == s.e)

    def __repr__(s):
        return f"SymReal({s.e})"

    def __format__(s, spec):
        return "<sym>"

    def __float__(s):
        raise HarnessError("symbolic float realised at a C boundary (__float__)")

    def __deepcopy__(s, memo):
        return s

    def __copy__(s):
        return s


class SymInt:
    __slots__ = ("e",)

    def __init__(self, e):
        self.e = e

    @property
    def __class__(self):
        return int

    @staticmethod
    def lift(o):
        t = type(o)
        if t is SymInt:
            return o.e
        if t is int:
            return z3.IntVal(o)
        if t is bool:
            return z3.IntVal(int(o))
        return None

    def _b(s, o, f, rev=False):
        b = SymInt.lift(o)
        if b is None:
            if type(o) in (float, SymReal):
                return SymReal(z3.ToReal(s.e))._bin(o, f, rev, None)
            return NotImplemented
        return SymInt(f(b, s.e) if rev else f(s.e, b))

    def __add__(s, o):
        if type(o) is float and not _om.isfinite(o):
            return SymReal(z3.ToReal(s.e)).__add__(o)
        return s._b(o, lambda a, b: a + b)

    __radd__ = __add__

    def __sub__(s, o):
        return s._b(o, lambda a, b: a - b)

    def __rsub__(s, o):
        return s._b(o, lambda a, b: a - b, True)

    def __mul__(s, o):
        import datetime as _d

        if type(o) is SymTD or type(o) is _d.timedelta:
            return SymTD.of(o).__mul__(s)
        if type(o) is float or type(o) is SymReal:
            return SymReal(z3.ToReal(s.e)).__mul__(o)
        return s._b(o, lambda a, b: a * b)

    __rmul__ = __mul__

    def __truediv__(s, o):
        return SymReal(z3.ToReal(s.e)).__truediv__(o)

    def __rtruediv__(s, o):
        return SymReal(z3.ToReal(s.e)).__rtruediv__(o)

    def _posdiv(s, o):
        b = SymInt.lift(o)
        if b is None:
            return None
        if z3.is_int_value(b):
            if b.as_long() == 0:
                raise ZeroDivisionError("integer division or modulo by zero")
        elif _cur.branch(b == 0):
            raise ZeroDivisionError("integer division or modulo by zero")
        return b

    def __mod__(s, o):
        b = s._posdiv(o)
        if b is None:
            return NotImplemented
        # python: result has the sign of the divisor; z3 mod is non-negative
        m = s.e % b
        return SymInt(z3.If(b > 0, m, z3.If(m == 0, 0, m + b)))

    def __floordiv__(s, o):
        b = s._posdiv(o)
        if b is None:
            return NotImplemented
        # z3 div: for b>0 floor; for b<0 it is ceil(a/b) -> python floor needs adjusting
        q = s.e / b
        return SymInt(z3.If(b > 0, q, z3.If(s.e % b == 0, q, q - 1)))

    def __rfloordiv__(s, o):
        return SymInt(SymInt.lift(o)).__floordiv__(s)

    def __rmod__(s, o):
        return SymInt(SymInt.lift(o)).__mod__(s)

    def __divmod__(s, o):
        return s.__floordiv__(o), s.__mod__(o)

    def __neg__(s):
        return SymInt(-s.e)

    def __pos__(s):
        return s

    def __abs__(s):
        return SymInt(zabs(s.e))

    def _c(s, o, f):
        b = SymInt.lift(o)
        if b is None:
            if type(o) is float:
                if not _om.isfinite(o):
                    return SymReal(z3.ToReal(s.e))._cmp(o, f)
                return _cur.branch(f(z3.ToReal(s.e), _lift(o)))
            if type(o) is SymReal:
                return _cur.branch(f(z3.ToReal(s.e), o.e))
            return NotImplemented
        return _cur.branch(f(s.e, b))

    def __lt__(s, o):
        return s._c(o, _lt)

    def __le__(s, o):
        return s._c(o, _le)

    def __gt__(s, o):
        return s._c(o, _gt)

    def __ge__(s, o):
        return s._c(o, _ge)

    def __eq__(s, o):
        return s._c(o, _eq)

    def __ne__(s, o):
        return s._c(o, _ne)

    def __hash__(s):
        return 0

    def __bool__(s):
        return _cur.branch(s.e != 0)

    def __index__(s):
        return _cur.realize_int(s.e)

    def __int__(s):
        return s.__index__()

    def __float__(s):
        raise HarnessError("symbolic int realised through __float__")

    def __repr__(s):
        return f"SymInt({s.e})"

    def __format__(s, spec):
        return "<symint>"

    def __deepcopy__(s, memo):
        return s


# ---- datetime / timedelta as Int microseconds
import datetime as _dt  # noqa: E402

EPOCH = _dt.datetime(1970, 1, 1, tzinfo=_dt.timezone.utc)
_US = _dt.timedelta(microseconds=1)


def td_us(td):
    return td // _US


def dt_us(d):
    if d.tzinfo is None:
        d = d.replace(tzinfo=_dt.timezone.utc)
    return (d - EPOCH) // _US


def us_dt(us: int):
    return EPOCH + _dt.timedelta(microseconds=us)


class SymTD:
    __slots__ = ("us",)

    def __init__(self, us):
        self.us = us

    @property
    def __class__(self):
        return _dt.timedelta

    @staticmethod
    def of(o):
        if type(o) is SymTD:
            return o
        if type(o) is _dt.timedelta:
            return SymTD(z3.IntVal(td_us(o)))
        return None

    def __add__(s, o):
        if type(o) in (SymDT, _dt.datetime):
            return SymDT.of(o).__add__(s)
        t = SymTD.of(o)
        return NotImplemented if t is None else SymTD(s.us + t.us)

    __radd__ = __add__

    def __sub__(s, o):
        t = SymTD.of(o)
        return NotImplemented if t is None else SymTD(s.us - t.us)

    def __rsub__(s, o):
        if type(o) in (SymDT, _dt.datetime):
            return SymDT(SymDT.of(o).us - s.us)
        t = SymTD.of(o)
        return NotImplemented if t is None else SymTD(t.us - s.us)

    def __neg__(s):
        return SymTD(-s.us)

    def __pos__(s):
        return s

    def __abs__(s):
        return SymTD(zabs(s.us))

    def __mul__(s, o):
        t = type(o)
        if t is int:
            return SymTD(s.us * o)
        if t is SymInt:
            return SymTD(s.us * o.e)
        if t is float:
            fr = fractions.Fraction(o)
            return SymTD(rhe_div(s.us * fr.numerator, z3.IntVal(fr.denominator)))
        if t is SymReal:
            return SymTD(rhe_real(z3.ToReal(s.us) * o.e))
        return NotImplemented

    __rmul__ = __mul__

    def __truediv__(s, o):
        t = type(o)
        if t is int:
            if o == 0:
                raise ZeroDivisionError
            if o < 0:
                return SymTD(-rhe_div(s.us, z3.IntVal(-o)))  # rhe is symmetric
            return SymTD(rhe_div(s.us, z3.IntVal(o)))
        if t is SymInt:
            if _cur.branch(o.e == 0):
                raise ZeroDivisionError
            if _cur.branch(o.e > 0):
                return SymTD(rhe_div(s.us, o.e))
            return SymTD(-rhe_div(s.us, -o.e))
        if t is float:
            fr = fractions.Fraction(o)
            if fr == 0:
                raise ZeroDivisionError
            if fr < 0:
                return (-s).__truediv__(-o)
            return SymTD(rhe_div(s.us * fr.denominator, z3.IntVal(fr.numerator)))
        x = SymTD.of(o)
        if x is None:
            return NotImplemented
        if _cur.branch(x.us == 0):
            raise ZeroDivisionError
        return SymReal(z3.ToReal(s.us) / z3.ToReal(x.us))

    def __rtruediv__(s, o):
        t = SymTD.of(o)
        if t is None:
            return NotImplemented
        if _cur.branch(s.us == 0):
            raise ZeroDivisionError
        return SymReal(z3.ToReal(t.us) / z3.ToReal(s.us))

    def _pos_divisor(s, t):
        if z3.is_int_value(t.us):
            if t.us.as_long() > 0:
                return
            if t.us.as_long() == 0:
                raise ZeroDivisionError
            raise NotImplementedError("negative timedelta divisor")
        if _cur.branch(t.us == 0):
            raise ZeroDivisionError("integer division or modulo by zero")
        if not _cur.branch(t.us > 0):
            raise NotImplementedError("negative timedelta divisor")

    def __floordiv__(s, o):
        if type(o) is int:
            assert o > 0
            return SymTD(s.us / o)
        t = SymTD.of(o)
        if t is None:
            return NotImplemented
        s._pos_divisor(t)
        return SymInt(s.us / t.us)

    def __rfloordiv__(s, o):
        t = SymTD.of(o)
        if t is None:
            return NotImplemented
        t._pos_divisor(s)
        return SymInt(t.us / s.us)

    def __mod__(s, o):
        t = SymTD.of(o)
        if t is None:
            return NotImplemented
        s._pos_divisor(t)
        return SymTD(s.us % t.us)

    def __rmod__(s, o):
        t = SymTD.of(o)
        if t is None:
            return NotImplemented
        t._pos_divisor(s)
        return SymTD(t.us % s.us)

    def __divmod__(s, o):
        t = SymTD.of(o)
        if t is None:
            return NotImplemented
        s._pos_divisor(t)
        return SymInt(s.us / t.us), SymTD(s.us % t.us)

    def __rdivmod__(s, o):
        t = SymTD.of(o)
        if t is None:
            return NotImplemented
        t._pos_divisor(s)
        return SymInt(t.us / s.us), SymTD(t.us % s.us)

    def total_seconds(s):
        return SymReal(z3.ToReal(s.us) / 1000000)

    def _c(s, o, f):
        t = SymTD.of(o)
        if t is None:
            return NotImplemented
        return _cur.branch(f(s.us, t.us))

    def __lt__(s, o):
        return s._c(o, _lt)

    def __le__(s, o):
        return s._c(o, _le)

    def __gt__(s, o):
        return s._c(o, _gt)

    def __ge__(s, o):
        return s._c(o, _ge)

    def __eq__(s, o):
        return s._c(o, _eq)

    def __ne__(s, o):
        return s._c(o, _ne)

    def __hash__(s):
        return 0

    def __bool__(s):
        return _cur.branch(s.us != 0)

    def __deepcopy__(s, memo):
        return s

    def __repr__(s):
        return f"SymTD({s.us})"

    def __format__(s, spec):
        return "<symtd>"

    __str__ = __repr__


class SymDT:
    __slots__ = ("us",)

    def __init__(self, us):
        self.us = us

    @property
    def __class__(self):
        return _dt.datetime

    tzinfo = _dt.timezone.utc

    @staticmethod
    def of(o):
        if type(o) is SymDT:
            return o
        if type(o) is _dt.datetime:
            return SymDT(z3.IntVal(dt_us(o)))
        return None

    def __add__(s, o):
        t = SymTD.of(o)
        return NotImplemented if t is None else SymDT(s.us + t.us)

    __radd__ = __add__

    def __sub__(s, o):
        t = SymTD.of(o)
        if t is not None:
            return SymDT(s.us - t.us)
        d = SymDT.of(o)
        return NotImplemented if d is None else SymTD(s.us - d.us)

    def __rsub__(s, o):
        d = SymDT.of(o)
        return NotImplemented if d is None else SymTD(d.us - s.us)

    def timestamp(s):
        return SymReal(z3.ToReal(s.us) / 1000000)

    def astimezone(s, tz=None):
        return s

    def replace(s, **kw):
        if set(kw) <= {"tzinfo"}:
            return s
        raise NotImplementedError("SymDT.replace")

    def utcoffset(s):
        return _dt.timedelta(0)

    def isoformat(s, *a, **k):
        return "<symdt>"

    def _c(s, o, f):
        d = SymDT.of(o)
        if d is None:
            return NotImplemented
        return _cur.branch(f(s.us, d.us))

    def __lt__(s, o):
        return s._c(o, _lt)

    def __le__(s, o):
        return s._c(o, _le)

    def __gt__(s, o):
        return s._c(o, _gt)

    def __ge__(s, o):
        return s._c(o, _ge)

    def __eq__(s, o):
        return s._c(o, _eq)

    def __ne__(s, o):
        return s._c(o, _ne)

    def __hash__(s):
        return 0

    def __deepcopy__(s, memo):
        return s

    def __repr__(s):
        return f"SymDT({s.us})"

    def __format__(s, spec):
        return "<symdt>"

    __str__ = __repr__


# --------------------------------------------------------------------------------------
# shim functions usable as module globals in the code under test


def sym_round(x, nd=None):
    if type(x) is SymReal:
        return x.__round__(nd)
    if type(x) is SymInt:
        return x
    return round(x) if nd is None else round(x, nd)


def sym_int(x=0, *a):
    if type(x) is SymReal:
        return x.__trunc__()
    if type(x) is SymInt:
        return x
    return int(x, *a)


def sym_pow(x, y, *a):
    if type(x) is SymReal:
        return x.__pow__(y)
    return pow(x, y, *a)


def sym_abs(x):
    return abs(x)


class SymMath:
    """Exact real-arithmetic versions of math predicates, dispatching on proxies."""

    nan = _math.nan
    inf = _math.inf

    @staticmethod
    def isnan(x):
        return False if type(x) in (SymReal, SymInt) else _om.isnan(x)

    @staticmethod
    def isinf(x):
        return False if type(x) in (SymReal, SymInt) else _om.isinf(x)

    @staticmethod
    def isfinite(x):
        return True if type(x) in (SymReal, SymInt) else _om.isfinite(x)

    @staticmethod
    def isclose(a, b, *, rel_tol=1e-09, abs_tol=0.0):
        if type(a) not in (SymReal, SymInt) and type(b) not in (SymReal, SymInt):
            return _om.isclose(a, b, rel_tol=rel_tol, abs_tol=abs_tol)
        for v in (a, b):
            if type(v) is float and not _om.isfinite(v):
                return False  # a finite real is never close to nan/inf
        ea, eb = _lift(a), _lift(b)
        d = zabs(ea - eb)
        m = zmax(zabs(ea), zabs(eb))
        return _cur.branch(z3.Or(ea == eb, d <= realval(rel_tol) * m, d <= realval(abs_tol)))

    @staticmethod
    def ceil(x):
        if type(x) is SymReal:
            fl = z3.ToInt(x.e)
            return SymInt(z3.If(z3.ToReal(fl) == x.e, fl, fl + 1))
        if type(x) is SymInt:
            return x
        return _om.ceil(x)

    @staticmethod
    def floor(x):
        if type(x) is SymReal:
            return SymInt(z3.ToInt(x.e))
        if type(x) is SymInt:
            return x
        return _om.floor(x)

    def __getattr__(self, n):
        return getattr(_math, n)


_patched = False


def patch_math():
    """Patch the math module itself (so `from math import isnan` in the repo is covered)."""
    global _patched
    if _patched:
        return
    for n in ("isnan", "isinf", "isfinite", "isclose", "ceil", "floor"):
        setattr(_math, n, getattr(SymMath, n))
    _patched = True


# --------------------------------------------------------------------------------------
# model -> python values


def model_value(m, d):
    """python value (float/int/bool) of the 0-ary declaration d in model m."""
    v = m.eval(d(), model_completion=True)
    s = d.range()
    if s == z3.RealSort():
        if z3.is_algebraic_value(v):
            v = v.approx(30)
        return ("real", fractions.Fraction(v.numerator_as_long(), v.denominator_as_long()))
    if s == z3.IntSort():
        return ("int", v.as_long())
    if s == z3.BoolSort():
        return ("bool", bool(z3.is_true(v)))
    return ("other", str(v))


# --------------------------------------------------------------------------------------
# explorers


class Stats(dict):
    KEYS = (
        "paths", "decisions", "solver_calls", "solver_s", "unknown", "infeasible", "checks",
        "checks_unsat", "checks_sat", "known_hits", "unreproduced", "validated", "validation_skipped",
        "validation_mismatch", "aborted_paths",
    )

    def __init__(self):
        super().__init__({k: 0 for k in self.KEYS})
        self["solver_s"] = 0.0

    def merge(self, o):
        for k, v in o.items():
            if isinstance(v, (int, float)):
                self[k] = self.get(k, 0) + v


class BaseExplorer:
    concrete = False

    # -- value sources shared by both modes -----------------------------------------
    def E(self, x):
        return E(x)


class Explorer(BaseExplorer):
    """Symbolic concolic explorer."""

    def __init__(self, timeout_ms=20000, incremental=True, decision_limit=6000, replay_fn=None,
                 validate_every=0, max_validate=20, dump_queries=0):
        self.timeout_ms = timeout_ms
        self.incremental = incremental
        self.decision_limit = decision_limit
        self.stats = Stats()
        self.inconclusive = []
        self.replay_fn = replay_fn  # fn(values) -> ReplayResult
        self.validate_every = validate_every
        self.max_validate = max_validate
        self.samples = []
        self.check_labels = {}
        self.known_labels = {}
        self.dump_queries = dump_queries
        self.dumped = []
        self.unreproduced = []
        self.max_depth = None
        self.path_limit_s = 90.0  # wall-clock guard per path: a path that takes longer is treated like one exceeding the decision limit
        self._reset([], None, [])

    # ---- per-path state
    def _reset(self, prefix, model, notes):
        self.prefix = prefix
        self.prefix_notes = notes
        self.notes = []
        self.model = model
        self.conds = []
        self.cache = {}
        self.real_cache = {}   # simplified int term id -> (value it was realised to on this path, term)
        self.decisions = []
        self.decls = {}  # name -> z3 const
        self.observed = {}
        self.frontier_hit = False
        self._path_t0 = time.time()
        self._ps = None
        self._ps_n = 0

    def _path_solver(self):
        """One solver per path holding conds[0:n], one scope per cond (used for checks and flips)."""
        if self._ps is None:
            self._ps = z3.Solver()
            self._ps.set("timeout", self.timeout_ms)
            self._ps_n = 0
        while self._ps_n < len(self.conds):
            self._ps.push()
            self._ps.add(self.conds[self._ps_n])
            self._ps_n += 1
        return self._ps

    def _ps_check(self, extra):
        ps = self._path_solver()
        ps.push()
        ps.add(*extra)
        t = time.time()
        r = ps.check()
        self.stats["solver_calls"] += 1
        self.stats["solver_s"] += time.time() - t
        m = ps.model() if r == z3.sat else None
        ps.pop()
        if r == z3.sat:
            return "sat", m
        if r == z3.unsat:
            return "unsat", None
        return self._solve(self.conds + list(extra))  # retry on a fresh solver

    def _solve(self, constraints, want_model=True):
        s = z3.Solver()
        s.set("timeout", self.timeout_ms)
        s.add(*constraints)
        t = time.time()
        r = s.check()
        dt = time.time() - t
        self.stats["solver_calls"] += 1
        self.stats["solver_s"] += dt
        if r == z3.sat:
            return "sat", s.model()
        if r == z3.unsat:
            return "unsat", None
        self.stats["unknown"] += 1
        return "unknown", None

    def _need_model(self):
        if self.model == "lazy":
            r_, m = self._solve(self.conds)
            if r_ == "unsat":
                self.stats["infeasible"] += 1
                raise Abort()
            if r_ != "sat":
                self.inconclusive.append("prefix-unknown")
                raise Abort()
            self.model = m

    # ---- symbolic value sources
    def real(self, name):
        c = z3.Real(name)
        self.decls[name] = c
        return SymReal(c)

    def int_(self, name, lo=None, hi=None):
        c = z3.Int(name)
        self.decls[name] = c
        if lo is not None:
            self.assume(c >= lo)
        if hi is not None:
            self.assume(c <= hi)
        return SymInt(c)

    def flag(self, name):
        c = z3.Bool(name)
        self.decls[name] = c
        return self.branch(c)

    def choice(self, name, n):
        """Concrete python int in range(n), forking over all n values."""
        c = z3.Int(name)
        self.decls[name] = c
        self.assume(z3.And(c >= 0, c < n))
        return self.realize_int(c)

    def dt(self, name, lo=None, hi=None):
        return SymDT(self.int_(name, lo, hi).e)

    def td(self, name, lo=None, hi=None):
        return SymTD(self.int_(name, lo, hi).e)

    def observe(self, name, value):
        self.observed[name] = value

    # ---- branching
    def realize_int(self, e):
        e = z3.simplify(e)
        if z3.is_int_value(e):
            return e.as_long()
        rk = e.get_id()
        if rk in self.real_cache:   # the same term was realised earlier on this path: no new decision (and none to replay)
            return self.real_cache[rk][0]
        while True:
            i = len(self.decisions)
            if i < len(self.prefix):
                v = self.prefix_notes[i]
                if v is None:
                    raise HarnessError("prefix replay diverged (expected a realised value)")
            else:
                self._need_model()
                v = self.model.eval(e, model_completion=True).as_long()
            # force: a realisation always records its own decision (even when the equality happens to be implied by, or identical
            # to, an earlier branch condition), so that the notes stay aligned with the decisions on prefix replay
            if self.branch(e == v, note=v, force=True):
                self.real_cache[rk] = (v, e)
                return v

    def branch(self, cond, note=None, force=False):
        if type(cond) is bool:
            return cond
        cond = z3.simplify(cond)
        if not force:
            if z3.is_true(cond):
                return True
            if z3.is_false(cond):
                return False
        key = cond.get_id()
        if not force:
            if key in self.cache:
                return self.cache[key][0]
            if z3.is_not(cond):
                k2 = cond.arg(0).get_id()
                if k2 in self.cache:
                    return not self.cache[k2][0]
        i = len(self.decisions)
        if i < len(self.prefix):
            d = self.prefix[i]
        else:
            self._need_model()
            if self.max_depth is not None and i >= self.max_depth:
                self.frontier_hit = True
                raise Abort()
            if i >= self.decision_limit or (self.path_limit_s and time.time() - self._path_t0 > self.path_limit_s):
                # The path does not end symbolically (e.g. a loop whose trip count depends on symbolic data).  Its current model
                # is still a concrete input: try it on plain values; a reproduced violation is reported, otherwise inconclusive.
                vals = self.values_of(self.model)
                raise _Candidate("decision-limit", vals)
            v = self.model.eval(cond, model_completion=True)
            d = z3.is_true(v)
        self.cache[key] = (d, cond)
        self.decisions.append(d)
        self.notes.append(note)
        self.conds.append(cond if d else z3.Not(cond))
        return d

    def assume(self, cond):
        if not self.branch(cond):
            raise Abort()

    # ---- assertions
    def check(self, prop, label="", known=None):
        """prop must hold on this path for all values.  `known` = (finding_id, region): violations
        inside region are a recorded known finding and are not reported."""
        if type(prop) is bool:
            prop = z3.BoolVal(prop)
        self.stats["checks"] += 1
        self.check_labels[label] = self.check_labels.get(label, 0) + 1
        prop = z3.simplify(prop)
        if z3.is_true(prop):
            self.stats["checks_unsat"] += 1
            self.stats["checks_trivial"] = self.stats.get("checks_trivial", 0) + 1
            return True
        extra = [z3.Not(prop)]
        if known is not None and known[0] not in active_known():
            known = None  # a region only suppresses what is listed as an open finding in known_findings.json
        if known is not None:
            kid, region = known
            if type(region) is bool:
                region = z3.BoolVal(region)
            extra.append(z3.Not(region))
        q = self.conds + extra
        if self.incremental:
            r, m = self._ps_check(extra)
        else:
            r, m = self._solve(q)
        if r == "unsat":
            self.stats["checks_unsat"] += 1
            if self.dump_queries and len(self.dumped) < self.dump_queries:
                s = z3.Solver()
                s.add(*q)
                self.dumped.append(s.to_smt2())
            if known is not None:
                # is the known region hit on this path?  (bookkeeping only)
                pass
            return True
        if r == "unknown":
            self.inconclusive.append("check-unknown:" + label)
            return None
        self.stats["checks_sat"] += 1
        values = self.values_of(m)
        if self.replay_fn is not None:
            raise _Candidate(label, values)
        raise Violation(label, jsonable(values))

    def values_of(self, m):
        out = {}
        for name, c in self.decls.items():
            out[name] = model_value(m, c.decl())
        return out

    def reproduce(self, values, label):
        """Try to reproduce on concrete values (several roundings).  Returns dict or None."""
        for grid in (None, 2**20, 2**10, 2**4, 1):
            vals = {}
            for k, (kind, v) in values.items():
                if kind == "real":
                    if grid is None:
                        vals[k] = float(v)
                    else:
                        vals[k] = float(fractions.Fraction(round(v * grid), grid))
                else:
                    vals[k] = v
            res = self.replay_fn(vals)
            if res.get("violated"):
                return {"values": vals, "detail": res}
        return None

    def _unexpected(self, exc):
        """An exception escaped the harness on a symbolic path: reproduce it on plain values."""
        import traceback

        tb = traceback.format_exc(limit=-6)
        name = type(exc).__name__
        if self.replay_fn is None:
            raise HarnessError(f"unexpected {name}: {exc}\n{tb}")
        if not isinstance(self.model, z3.ModelRef):
            r_, m = self._solve(self.conds)
            if r_ != "sat":
                raise HarnessError(f"unexpected {name} on a path without model: {exc}\n{tb}")
            self.model = m
        values = self.values_of(self.model)
        for grid in (None, 2**20, 2**10):
            vals = {}
            for k, (kind, v) in values.items():
                vals[k] = (float(v) if grid is None else float(fractions.Fraction(round(v * grid), grid))) if kind == "real" else v
            res = self.replay_fn(vals)
            if res.get("error_type") == name:
                return Violation("exception:" + name, vals, {"error": res.get("error")})
        raise HarnessError(f"unexpected {name} on a symbolic path that does not reproduce on plain values "
                           f"(encoding error?): {exc}\n{tb}\nvalues={jsonable(values)}")

    # ---- path validation against the implementation on plain floats
    def validate_path(self):
        if self.replay_fn is None or not isinstance(self.model, z3.ModelRef):
            return
        m = self.model
        vals = {}
        subs = []
        for name, c in self.decls.items():
            kind, v = model_value(m, c.decl())
            if kind == "real":
                f = float(v)
                vals[name] = f
                subs.append((c, realval(f, exact=True)))
            elif kind == "int":
                vals[name] = v
                subs.append((c, z3.IntVal(v)))
            elif kind == "bool":
                vals[name] = v
                subs.append((c, z3.BoolVal(v)))
        # do the rounded values still satisfy the path condition (exact arithmetic)?
        for c in self.conds:
            if not z3.is_true(z3.simplify(z3.substitute(c, *subs))):
                self.stats["validation_skipped"] += 1
                return
        res = self.replay_fn(vals)
        if res.get("error"):
            self.stats["validation_mismatch"] += 1
            self.samples.append({"validation_error": res["error"], "values": vals})
            return
        if res.get("aborted"):
            self.stats["validation_skipped"] += 1
            return
        if res.get("violated"):
            # The plain-float run of this path's model violates an assertion although the symbolic run (exact arithmetic) did not:
            # a concrete failing input of the real code (typically a float-rounding effect).  It is a replayed counterexample.
            self.stats["validation_violation"] = self.stats.get("validation_violation", 0) + 1
            raise Violation((res.get("labels") or ["violated on plain floats"])[0] + " [found by the plain-float replay of a path model]", vals, res)
        ok = True
        obs = res.get("observed", {})
        for name, term in self.observed.items():
            if name not in obs:
                continue
            got = obs[name]
            exp = _eval_observed(term, subs)
            if not _close(exp, got):
                ok = False
                res = dict(res, mismatch=(name, repr(exp), repr(got)))
                break
        if ok:
            self.stats["validated"] += 1
        else:
            self.stats["validation_mismatch"] += 1
            self.samples.append({"validation_mismatch": _short(res), "values": vals})

    # ---- main loop
    def explore(self, fn, roots=None, budget_s=600.0, max_paths=10**9, max_depth=None):
        """Returns (status, leftover) with status in exhausted|budget|violation."""
        t0 = time.time()
        if roots is None:
            roots = [([], [])]
        stack = [(list(d), None, None, list(n)) for d, n in reversed(roots)]
        self.frontier_out = []
        self.violation = None
        npaths0 = self.stats["paths"]
        while stack:
            if self.stats["paths"] - npaths0 >= max_paths or time.time() - t0 > budget_s:
                left = [(p, nt) for (p, _c, _m, nt) in stack]
                return "budget", left
            prefix, cons, model, notes = stack.pop()
            if model is None:
                model = "lazy"
            self._reset(prefix, model, notes)
            self.max_depth = max_depth
            self.stats["paths"] += 1
            set_cur(self)
            completed = False
            try:
                fn(self)
                completed = True
            except Abort:
                self.stats["aborted_paths"] += 1
                if self.frontier_hit:
                    self.frontier_out.append((list(self.decisions), list(self.notes)))
            except Violation as v:
                self.violation = v
                return "violation", [(p, nt) for (p, _c, _m, nt) in stack]
            except _Candidate as c:
                rep = self.reproduce(c.values, c.label)
                if rep is not None:
                    lab = c.label
                    if lab == "decision-limit":
                        lab = (rep.get("detail") or {}).get("labels", ["decision-limit"])[0]
                    self.violation = Violation(lab, rep["values"], rep.get("detail"))
                    return "violation", [(p, nt) for (p, _c, _m, nt) in stack]
                if c.label == "decision-limit":
                    self.inconclusive.append("decision-limit")
                else:
                    self.stats["unreproduced"] += 1
                    self.unreproduced.append({"label": c.label, "values": jsonable(c.values)})
                    self.inconclusive.append("unreproduced:" + c.label)
            except HarnessError:
                raise
            except Exception as e:  # noqa: BLE001 - escaped the harness: real defect or encoding error
                v = self._unexpected(e)
                self.violation = v
                return "violation", [(p, nt) for (p, _c, _m, nt) in stack]
            self.stats["decisions"] += len(self.decisions) - min(len(prefix), len(self.decisions))
            if len(self.decisions) < len(prefix):
                # aborted inside the prefix (e.g. lazy prefix infeasible)
                continue
            if completed and self.validate_every and self.stats["paths"] % self.validate_every == 0 and \
                    self.stats["validated"] + self.stats["validation_mismatch"] < self.max_validate:
                try:
                    self.validate_path()
                except Abort:
                    pass
                except Violation as v:
                    self.violation = v
                    return "violation", [(p, nt) for (p, _c, _m, nt) in stack]
            if completed and len(self.samples) < 3 and isinstance(self.model, z3.ModelRef):
                try:
                    self.samples.append({"path_decisions": len(self.decisions),
                                         "model": jsonable(self.values_of(self.model)),
                                         "observed": {k: _short(repr(v)) for k, v in self.observed.items()}})
                except Exception:  # noqa: BLE001
                    pass
            self._flip(prefix, stack)
        return "exhausted", []

    def _flip(self, prefix, stack):
        n0 = len(prefix)
        n1 = len(self.decisions)
        if n1 <= n0:
            return
        if self.incremental:
            inc = self._path_solver()
        new = []
        t_flip = time.time()
        for i in range(n1 - 1, n0 - 1, -1):
            if self.path_limit_s and time.time() - t_flip > 3 * self.path_limit_s:
                self.inconclusive.append("flips-skipped")  # pathological path: its remaining alternatives are not explored (never a pass)
                break
            c = self.conds[i]
            negc = c.arg(0) if z3.is_not(c) else z3.Not(c)
            note = self.notes[i]
            if not self.incremental:
                r2, m2 = self._solve(self.conds[:i] + [negc])
            else:
                inc.pop()  # drop cond i (and everything after it is already gone)
                self._ps_n = i
                inc.push()
                inc.add(negc)
                t1 = time.time()
                rr = inc.check()
                self.stats["solver_s"] += time.time() - t1
                self.stats["solver_calls"] += 1
                if rr == z3.sat:
                    r2, m2 = "sat", inc.model()
                elif rr == z3.unsat:
                    r2, m2 = "unsat", None
                else:
                    # retry once on a fresh solver
                    r2, m2 = self._solve(self.conds[:i] + [negc])
                inc.pop()
            if r2 == "sat":
                stack.append((self.decisions[:i] + [not self.decisions[i]], None, m2, self.notes[:i] + [note]))
            elif r2 == "unsat":
                self.stats["infeasible"] += 1
            else:
                self.inconclusive.append("flip-unknown")


def _eval_observed(term, subs):
    t = type(term)
    if t in (SymReal, SymInt):
        v = z3.simplify(z3.substitute(term.e, *subs))
        if z3.is_algebraic_value(v):
            v = v.approx(30)
        if z3.is_rational_value(v) or z3.is_int_value(v):
            return float(fractions.Fraction(v.numerator_as_long(), v.denominator_as_long())) if z3.is_rational_value(v) else v.as_long()
        return ("unevaluated", str(v))
    if t in (SymDT, SymTD):
        v = z3.simplify(z3.substitute(term.us, *subs))
        return v.as_long() if z3.is_int_value(v) else ("unevaluated", str(v))
    if t in (list, tuple):
        return [_eval_observed(x, subs) for x in term]
    if t is dict:
        return {k: _eval_observed(x, subs) for k, x in term.items()}
    return term


def _close(a, b):
    if type(a) in (list, tuple) and type(b) in (list, tuple):
        return len(a) == len(b) and all(_close(x, y) for x, y in zip(a, b))
    if type(a) is dict and type(b) is dict:
        return a.keys() == b.keys() and all(_close(a[k], b[k]) for k in a)
    if isinstance(a, (int, float)) and isinstance(b, (int, float)) and not isinstance(a, bool) and not isinstance(b, bool):
        if _om.isnan(a) and _om.isnan(b):
            return True
        return abs(a - b) <= 1e-6 * max(1.0, abs(a), abs(b))
    if type(a) is tuple and a and a[0] == "unevaluated":
        return True
    return a == b


def _short(x, n=400):
    s = x if isinstance(x, str) else repr(x)
    return s if len(s) <= n else s[:n] + "..."


def jsonable(values):
    out = {}
    for k, v in values.items():
        if isinstance(v, tuple) and len(v) == 2 and v[0] in ("real", "int", "bool", "other"):
            v = v[1]
        if isinstance(v, fractions.Fraction):
            v = float(v)
        out[k] = v
    return out


class ReplayExplorer(BaseExplorer):
    """Concrete mode: the same harness code, plain floats/ints/bools/datetimes from a dict."""

    concrete = True

    def __init__(self, values, stop_at_first=True):
        self.values = values
        self.violations = []
        self.observed = {}
        self.stats = Stats()
        self.checks = 0
        self.used = {}
        self.stop_at_first = stop_at_first

    def _get(self, name, default):
        v = self.values.get(name, default)
        self.used[name] = v
        return v

    def real(self, name):
        return float(self._get(name, 0.0))

    def int_(self, name, lo=None, hi=None):
        v = int(self._get(name, lo if lo is not None else 0))
        if (lo is not None and v < lo) or (hi is not None and v > hi):
            raise Abort()
        return v

    def flag(self, name):
        return bool(self._get(name, False))

    def choice(self, name, n):
        v = int(self._get(name, 0))
        if not 0 <= v < n:
            raise Abort()
        return v

    def dt(self, name, lo=None, hi=None):
        return us_dt(self.int_(name, lo, hi))

    def td(self, name, lo=None, hi=None):
        return _dt.timedelta(microseconds=self.int_(name, lo, hi))

    def observe(self, name, value):
        self.observed[name] = _conc(value)

    def _ground(self, cond):
        if type(cond) is bool:
            return cond
        if type(cond) is SymBool:
            cond = cond.e
        c = z3.simplify(cond)
        if z3.is_true(c):
            return True
        if z3.is_false(c):
            return False
        # declared consts left (named flags/ints used directly in z3 terms): substitute from values
        subs = []
        for d in _consts(c):
            name = d.decl().name()
            if d.sort() == z3.BoolSort():
                subs.append((d, z3.BoolVal(bool(self._get(name, False)))))
            elif d.sort() == z3.IntSort():
                subs.append((d, z3.IntVal(int(self._get(name, 0)))))
            else:
                subs.append((d, realval(float(self._get(name, 0.0)), exact=True)))
        c = z3.simplify(z3.substitute(c, *subs))
        if z3.is_true(c):
            return True
        if z3.is_false(c):
            return False
        s = z3.Solver()
        s.add(c)
        r = s.check()
        if r == z3.sat:
            s2 = z3.Solver()
            s2.add(z3.Not(c))
            if s2.check() == z3.unsat:
                return True
        elif r == z3.unsat:
            return False
        raise HarnessError(f"replay: condition is not ground: {c}")

    def branch(self, cond, note=None):
        return self._ground(cond)

    def realize_int(self, e):
        if type(e) is int:
            return e
        v = z3.simplify(e)
        if z3.is_int_value(v):
            return v.as_long()
        raise HarnessError("replay: realize_int on non-ground term")

    def assume(self, cond):
        if not self._ground(cond):
            raise Abort()

    def check(self, prop, label="", known=None):
        self.checks += 1
        ok = self._ground(prop)
        if not ok:
            in_known = None
            if known is not None and known[0] in active_known():
                kid, region = known
                if self._ground(region):
                    in_known = kid
            self.violations.append({"label": label, "known": in_known})
            if in_known is None and self.stop_at_first:
                raise Violation(label, self.values)
        return ok


def _consts(e):
    seen = {}
    todo = [e]
    while todo:
        t = todo.pop()
        if z3.is_const(t) and t.decl().kind() == z3.Z3_OP_UNINTERPRETED:
            seen[t.get_id()] = t
        else:
            todo.extend(t.children())
    return list(seen.values())


def _conc(v):
    if isinstance(v, _dt.datetime) and type(v) is _dt.datetime:
        return dt_us(v)
    if isinstance(v, _dt.timedelta) and type(v) is _dt.timedelta:
        return td_us(v)
    if type(v) in (list, tuple):
        return [_conc(x) for x in v]
    if type(v) is dict:
        return {k: _conc(x) for k, x in v.items()}
    return v


def run_concrete(fn, values):
    """Run harness fn on concrete values.  Returns dict(violated, labels, observed, aborted, error)."""
    prev = cur()
    ex = ReplayExplorer(values)
    set_cur(ex)
    out = {"violated": False, "labels": [], "observed": {}, "aborted": False, "error": None, "error_type": None, "checks": 0}
    try:
        fn(ex)
    except Abort:
        out["aborted"] = True
    except Violation:
        pass
    except HarnessError as e:
        out["error"] = f"HarnessError: {e}"
    except Exception as e:  # noqa: BLE001
        import traceback

        out["error_type"] = type(e).__name__
        out["error"] = f"{type(e).__name__}: {e} @ " + traceback.format_exc(limit=-3).replace("\n", " | ")
    finally:
        set_cur(prev)
    unknown = [v for v in ex.violations if v["known"] is None]
    out["violated"] = bool(unknown)
    out["labels"] = [v["label"] for v in unknown]
    out["known_labels"] = [(v["known"], v["label"]) for v in ex.violations if v["known"] is not None]
    out["observed"] = ex.observed
    out["checks"] = ex.checks
    return out
