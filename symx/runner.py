"""Runner: shards harness instances over processes, aggregates verdicts, writes evidence, replays."""
from __future__ import annotations

import hashlib
import importlib
import json
import multiprocessing as mp
import os
import sys
import time
import traceback
from dataclasses import dataclass, field, asdict

VERIF = os.path.dirname(os.path.dirname(os.path.abspath(__file__)))
NPROC = int(os.environ.get("VERIF_NPROC", "16"))


@dataclass
class Instance:
    name: str
    make: str
    args: tuple = ()
    bound: str = ""
    timeout_ms: int = 20000
    incremental: bool = True
    budget_s: float = 300.0  # wall budget for this instance
    exhaustive: bool = True  # tier is sized so that this instance exhausts
    validate_every: int = 50
    max_validate: int = 10
    dump_queries: int = 0
    programs: int = 0  # for translation-validation harnesses: programs covered by this instance
    decision_limit: int = 6000


# ------------------------------------------------------------------------------------------
# worker side

_loaded = {}


def _load(modname):
    if modname not in _loaded:
        import logging

        logging.disable(logging.CRITICAL)
        mod = importlib.import_module(modname)
        if hasattr(mod, "install"):
            mod.install()
        _loaded[modname] = mod
    return _loaded[modname]


def _work(task):
    from symx import core

    t0 = time.time()
    out = {"inst": task["inst"]["name"], "status": "error", "stats": {}, "leftover": [], "violation": None,
           "inconclusive": [], "samples": [], "check_labels": {}, "dumped": [], "error": None, "unreproduced": []}
    try:
        mod = _load(task["module"])
        inst = task["inst"]
        fn = getattr(mod, inst["make"])(*inst["args"])
        replay_fn = (lambda vals: core.run_concrete(fn, vals))
        ex = core.Explorer(timeout_ms=inst["timeout_ms"], incremental=inst["incremental"],
                           decision_limit=inst["decision_limit"], replay_fn=replay_fn,
                           validate_every=inst["validate_every"], max_validate=inst["max_validate"],
                           dump_queries=inst["dump_queries"])
        status, left = ex.explore(fn, roots=task["roots"], budget_s=task["slice_s"], max_paths=task.get("max_paths", 10**9))
        out["status"] = status
        out["leftover"] = left
        out["stats"] = dict(ex.stats)
        out["inconclusive"] = ex.inconclusive[:50]
        out["n_inconclusive"] = len(ex.inconclusive)
        out["samples"] = ex.samples[:4]
        out["check_labels"] = ex.check_labels
        out["dumped"] = ex.dumped
        out["unreproduced"] = ex.unreproduced[:5]
        if status == "violation":
            v = ex.violation
            out["violation"] = {"label": v.label, "values": v.values, "detail": _js(v.detail)}
    except core.HarnessError as e:
        out["error"] = "HarnessError: " + str(e) + "\n" + traceback.format_exc(limit=8)
    except BaseException as e:  # noqa: BLE001
        out["error"] = f"{type(e).__name__}: {e}\n" + traceback.format_exc(limit=12)
    out["wall"] = time.time() - t0
    return out


def _js(x):
    try:
        json.dumps(x)
        return x
    except Exception:  # noqa: BLE001
        return repr(x)[:2000]


# ------------------------------------------------------------------------------------------
# root side


def _chunks(lst, n):
    n = max(1, min(n, len(lst)))
    return [lst[i::n] for i in range(n)]


class InstState:
    def __init__(self, inst):
        from symx.core import Stats

        self.inst = inst
        self.stats = Stats()
        self.status = "exhausted"
        self.outstanding = 0
        self.started = None
        self.finished = None
        self.inconclusive = []
        self.n_inconclusive = 0
        self.samples = []
        self.check_labels = {}
        self.dumped = []
        self.errors = []
        self.unreproduced = []
        self.dropped = 0
        self.violation = None
        self.clock_on = False
        self.eff_budget = inst.budget_s


def run_instances(module, instances, total_budget_s, stop_on_violation=True, log=print):
    """Explore every instance; returns dict name -> InstState."""
    ctx = mp.get_context("spawn")
    states = {i.name: InstState(i) for i in instances}
    t0 = time.time()
    order = {i.name: k for k, i in enumerate(instances)}
    pending = []  # (instname, roots, gen); served in instance order so that cores concentrate on one instance
    for i in instances:
        pending.append((i.name, [([], [])], 0))
    pool = ctx.Pool(NPROC, maxtasksperchild=40)
    inflight = []
    pending_at_stop = []
    stop = False
    try:
        while pending or inflight:
            now = time.time()
            # launch
            while pending and len(inflight) < NPROC * 2 and not stop:
                k_ = min(range(len(pending)), key=lambda j: (order[pending[j][0]], j))
                name, roots, gen = pending.pop(k_)
                st = states[name]
                if st.started is None:
                    st.started = now
                # the budget clock of an instance runs only once every earlier instance has finished
                if not st.clock_on:
                    if all(states[o].finished is not None for o in order if order[o] < order[name]):
                        st.clock_on = True
                        st.started = now
                        # proportional share of what is left of the tier's total budget (unused time rolls over to later instances)
                        left = [states[o].inst.budget_s for o in order if order[o] >= order[name] and states[o].finished is None]
                        remaining = max(0.0, total_budget_s - (now - t0))
                        st.eff_budget = min(st.inst.budget_s, max(30.0, remaining * st.inst.budget_s / max(1.0, sum(left))))
                if st.clock_on and now - st.started > st.eff_budget or now - t0 > total_budget_s:
                    st.status = "budget"
                    st.dropped += len(roots)
                    continue
                slice_s = min(2.0 * (1.6 ** gen), 40.0)
                task = {"module": module, "inst": asdict(st.inst), "roots": roots, "slice_s": slice_s}
                st.outstanding += 1
                inflight.append((name, gen, pool.apply_async(_work, (task,))))
            if stop:
                pending_at_stop.extend(pending)
                pending = []
            # collect
            still = []
            progressed = False
            for name, gen, ar in inflight:
                if not ar.ready():
                    still.append((name, gen, ar))
                    continue
                progressed = True
                st = states[name]
                st.outstanding -= 1
                try:
                    out = ar.get()
                except BaseException as e:  # noqa: BLE001
                    out = {"status": "error", "error": f"worker died: {e!r}", "stats": {}, "leftover": []}
                st.stats.merge(out.get("stats", {}))
                st.n_inconclusive += out.get("n_inconclusive", 0)
                st.inconclusive.extend(out.get("inconclusive", [])[: max(0, 20 - len(st.inconclusive))])
                if len(st.samples) < 4:
                    st.samples.extend(out.get("samples", [])[: 4 - len(st.samples)])
                for k, v in out.get("check_labels", {}).items():
                    st.check_labels[k] = st.check_labels.get(k, 0) + v
                room = st.inst.dump_queries - len(st.dumped)
                if room > 0:
                    st.dumped.extend(out.get("dumped", [])[:room])
                st.unreproduced.extend(out.get("unreproduced", [])[: max(0, 5 - len(st.unreproduced))])
                if out.get("error"):
                    # an encoding/harness error makes THIS instance inconclusive (exit 2 unless another instance reproduces a
                    # violation on the real code); the other instances still run
                    st.errors.append(out["error"])
                    st.status = "error"
                    st.dropped += len([p_ for p_ in pending if p_[0] == name])
                    pending = [p_ for p_ in pending if p_[0] != name]
                elif out["status"] == "violation":
                    st.status = "violation"
                    st.violation = out["violation"]
                    if stop_on_violation and not name.startswith("reach:"):
                        stop = True
                    elif name.startswith("reach:"):
                        pending = [p_ for p_ in pending if p_[0] != name]
                    else:
                        st.dropped += len(out.get("leftover", []))
                elif out["status"] == "budget":
                    left = out["leftover"] if st.status != "error" else []
                    if left:
                        for ch in _chunks(left, 48):
                            pending.append((name, ch, gen + 1))
                if st.outstanding == 0 and not any(p[0] == name for p in pending):
                    st.finished = time.time()
            inflight = still
            # an instance is finished when nothing of it is in flight or waiting (also after its budget made us drop its tasks)
            waiting = {p_[0] for p_ in pending}
            for nm, st_ in states.items():
                if st_.finished is None and st_.started is not None and st_.outstanding == 0 and nm not in waiting:
                    st_.finished = time.time()
            if stop and not inflight:
                break
            if time.time() - t0 > total_budget_s + 150 and inflight:
                # hard stop: some worker is stuck in a pathological path far beyond the tier's budget
                for name, gen, ar in inflight:
                    st = states[name]
                    st.status = "budget" if st.status == "exhausted" else st.status
                    st.dropped += 1
                inflight = []
                break
            if not progressed:
                time.sleep(0.02)
    finally:
        pool.terminate()
        pool.join()
    for st in states.values():
        if st.finished is None:
            st.finished = time.time()
        if stop and st.status == "exhausted" and (st.started is None or st.outstanding or any(p_[0] == st.inst.name for p_ in pending_at_stop)):
            st.status = "stopped"
        if st.status == "exhausted" and st.n_inconclusive:
            st.status = "inconclusive"
        if st.status == "exhausted" and st.dropped:
            st.status = "budget"
    return states


# ------------------------------------------------------------------------------------------
# known findings


def load_known(prop):
    p = os.path.join(VERIF, "known_findings.json")
    if not os.path.exists(p):
        return []
    data = json.load(open(p))
    return [e for e in data.get("findings", []) if e.get("property") == prop and e.get("status") == "open"]


def replay_values(module, make, args, values):
    from symx import core

    mod = _load(module)
    fn = getattr(mod, make)(*args)
    return core.run_concrete(fn, values)


# ------------------------------------------------------------------------------------------
# cvc5 cross-check of dumped unsat queries


def cvc5_recheck(smt2_texts, per_query_ms=20000):
    res = {"checked": 0, "agree": 0, "disagree": 0, "unknown": 0, "errors": 0}
    try:
        import cvc5
    except Exception:  # noqa: BLE001
        res["errors"] = -1
        return res
    for txt in smt2_texts:
        try:
            tm = cvc5.TermManager()
            sl = cvc5.Solver(tm)
            sl.setOption("tlimit-per", str(per_query_ms))
            nonlinear = "(*" in txt or "(/" in txt
            sl.setLogic("ALL")
            if nonlinear:
                sl.setOption("nl-cov", "true")
            ip = cvc5.InputParser(sl)
            body = "\n".join(l for l in txt.splitlines() if not l.startswith("(set-info") and not l.startswith("; "))
            ip.setStringInput(cvc5.InputLanguage.SMT_LIB_2_6, body, "q")
            sm = ip.getSymbolManager()
            verdict = None
            while True:
                cmd = ip.nextCommand()
                if cmd.isNull():
                    break
                o = cmd.invoke(sl, sm).strip()
                if o in ("sat", "unsat", "unknown"):
                    verdict = o
                elif o.startswith("(error"):
                    verdict = "error"
            res["checked"] += 1
            if verdict == "unsat":
                res["agree"] += 1
            elif verdict == "sat":
                res["disagree"] += 1
            elif verdict == "error":
                res["errors"] += 1
            else:
                res["unknown"] += 1
        except Exception:  # noqa: BLE001
            res["checked"] += 1
            res["errors"] += 1
    return res


# ------------------------------------------------------------------------------------------
# main entry used by ./check


def main_check(prop, tier, seed):
    t0 = time.time()
    modname = f"harness.{prop.lower()}"
    mod = importlib.import_module(modname)
    insts = mod.instances(tier)
    level = getattr(mod, "LEVEL", "model_checking")
    total_budget = float(os.environ.get("VERIF_BUDGET_S", mod.BUDGET.get(tier, 600) if hasattr(mod, "BUDGET") else 600))

    # 1. known findings: replay the committed witnesses first
    known_lines = []
    known = load_known(prop)
    if known:
        _load(modname)
    for e in known:
        r = replay_values(modname, e["instance"]["make"], tuple(e["instance"]["args"]), e["values"])
        hit = any(k == e["id"] for k, _l in r.get("known_labels", []))
        if hit:
            line = f"KNOWN-FINDING: property={prop} {e['id']}: {e['what']}"
            print(line, flush=True)
            known_lines.append({"id": e["id"], "still_fails": True})
        else:
            known_lines.append({"id": e["id"], "still_fails": False, "replay": _js(r)})

    # 2. vacuity twins (reachability): instances flagged by the harness
    states = run_instances(modname, insts, total_budget)

    # 3. verdict
    viol = [s for s in states.values() if s.status == "violation"]
    errs = [s for s in states.values() if s.status == "error"]
    exit_code = 0
    replay_path = None
    for s in errs:
        print(f"HARNESS-ERROR property={prop} instance={s.inst.name}\n{s.errors[0]}", file=sys.stderr, flush=True)
    vacuity_failed = []
    for s in states.values():
        if s.inst.name.startswith("reach:"):
            # reachability twin: must be *violated*
            if s.status != "violation":
                vacuity_failed.append(s.inst.name)
    real_viol = [s for s in viol if not s.inst.name.startswith("reach:")]
    if real_viol and exit_code == 0:
        s = real_viol[0]
        d = os.path.join(os.environ.get("VERIF_REPLAY_DIR") or os.path.join(VERIF, "replays"), prop)
        os.makedirs(d, exist_ok=True)
        payload = {"property": prop, "module": modname, "instance": {"make": s.inst.make, "args": list(s.inst.args), "name": s.inst.name},
                   "label": s.violation["label"], "values": s.violation["values"], "detail": s.violation.get("detail")}
        h = hashlib.sha1(json.dumps(payload, sort_keys=True, default=str).encode()).hexdigest()[:12]
        replay_path = os.path.join(d, f"{h}.json")
        with open(replay_path, "w") as f:
            json.dump(payload, f, indent=1, default=str)
        print(f"VIOLATION property={prop} replay={replay_path}", flush=True)
        print(f"  instance={s.inst.name} label={s.violation['label']}", flush=True)
        exit_code = 1
    if errs and exit_code == 0:
        exit_code = 2   # no reproduced violation, but some instance could not be encoded: inconclusive, never reported as a pass
    if vacuity_failed and exit_code == 0:
        print(f"HARNESS-ERROR property={prop}: reachability twin(s) not violated: {vacuity_failed}", file=sys.stderr)
        exit_code = 2

    # 4. cvc5 cross-check
    dumped = [q for s in states.values() for q in s.dumped]
    xres = cvc5_recheck(dumped) if dumped else None
    if xres and xres["disagree"] and exit_code == 0:
        print(f"HARNESS-ERROR property={prop}: cvc5 disagrees with z3 on {xres['disagree']} queries", file=sys.stderr)
        exit_code = 2

    # 5. evidence
    from symx.core import Stats

    tot = Stats()
    for s in states.values():
        if not s.inst.name.startswith("reach:"):
            tot.merge(s.stats)
    main_states = [s for s in states.values() if not s.inst.name.startswith("reach:")]
    all_exh = all(s.status == "exhausted" for s in main_states)
    per_inst = []
    for s in states.values():
        per_inst.append({
            "name": s.inst.name, "bound": s.inst.bound, "status": s.status,
            "expected_exhaustive": s.inst.exhaustive,
            "paths": s.stats["paths"], "decisions": s.stats["decisions"], "queries": s.stats["solver_calls"],
            "solver_s": round(s.stats["solver_s"], 2), "unknown": s.stats["unknown"],
            "assertion_queries": s.stats["checks"], "assertion_unsat": s.stats["checks_unsat"],
            "validated_against_impl": s.stats["validated"], "validation_mismatch": s.stats["validation_mismatch"],
            "inconclusive": s.n_inconclusive, "inconclusive_kinds": sorted(set(s.inconclusive))[:6],
            "dropped_prefixes": s.dropped, "wall_s": round((s.finished or time.time()) - (s.started or t0), 2),
            "assertions_by_label": s.check_labels, "unreproduced_models": s.unreproduced[:2],
        })
    samples = []
    for s in main_states:
        for smp in s.samples[:2]:
            samples.append({"instance": s.inst.name, **smp})
    if not samples:
        samples = [{"instance": s.inst.name, "bound": s.inst.bound} for s in main_states[:3]]
    cov = {
        "states": int(tot["paths"]), "transitions": int(tot["decisions"]),
        "traces_validated_against_impl": int(tot["validated"]),
        "samples": samples[:12],
        "obligations": int(tot["checks"]), "discharged": int(tot["checks_unsat"]),
        "exhaustive": bool(all_exh),
        "queries": {"total": int(tot["solver_calls"]), "unknown": int(tot["unknown"]), "infeasible_flips": int(tot["infeasible"]),
                    "assertion_sat": int(tot["checks_sat"]), "unreproduced_models": int(tot["unreproduced"])},
        "solver_s": round(tot["solver_s"], 2),
        "validation_mismatch": int(tot["validation_mismatch"]),
        "functions_encoded": getattr(mod, "FUNCTIONS", []),
        "shims": getattr(mod, "SHIMS", []),
        "bounds": getattr(mod, "BOUNDS", {}).get(tier, ""),
        "outside_claim": getattr(mod, "OUTSIDE", ""),
        "instances": per_inst,
        "known_findings": known_lines,
        "vacuity_twins_violated": [s.inst.name for s in states.values() if s.inst.name.startswith("reach:") and s.status == "violation"],
        "cvc5_crosscheck": xres,
        "solver": "z3 " + _z3v(),
        "nproc": NPROC,
    }
    if level == "translation_validation":
        cov["programs"] = int(sum(s.inst.programs for s in main_states))
        cov["disagreements_checked"] = int(tot["checks"])
    ev = {
        "property_id": prop, "tier": tier, "seed": seed, "level": level, "coverage": cov,
        "assumptions": getattr(mod, "ASSUMPTIONS", []),
        "wall_s": round(time.time() - t0, 2),
        "violations": len(real_viol),
        "exit_code": exit_code,
    }
    evdir = os.environ.get("VERIF_EVIDENCE_DIR") or os.path.join(VERIF, "evidence")  # override only for runs on scratch checkouts
    os.makedirs(evdir, exist_ok=True)
    ev["repo_src"] = _repo_src()
    with open(os.path.join(evdir, f"{prop}.json"), "w") as f:
        json.dump(ev, f, indent=1, default=str)
    # per-tier copy, so that the last quick and the last thorough run can both be inspected
    os.makedirs(os.path.join(evdir, tier), exist_ok=True)
    with open(os.path.join(evdir, tier, f"{prop}.json"), "w") as f:
        json.dump(ev, f, indent=1, default=str)
    # summary to stdout
    for pi in per_inst:
        print(f"  {pi['name']:<44} {pi['status']:<12} paths={pi['paths']:<7} queries={pi['queries']:<8} "
              f"asserts={pi['assertion_unsat']}/{pi['assertion_queries']} unknown={pi['unknown']} wall={pi['wall_s']}s", flush=True)
    print(f"{prop} {tier}: exit={exit_code} exhaustive={all_exh} paths={tot['paths']} queries={tot['solver_calls']} "
          f"solver_s={tot['solver_s']:.1f} validated={tot['validated']} wall={time.time() - t0:.1f}s", flush=True)
    return exit_code


def _repo_src():
    import frequenz.sdk

    return os.path.dirname(os.path.dirname(os.path.dirname(os.path.abspath(frequenz.sdk.__file__))))


def _z3v():
    import z3

    return z3.get_version_string()


def main_replay(path):
    payload = json.load(open(path))
    r = replay_values(payload["module"], payload["instance"]["make"], tuple(payload["instance"]["args"]), payload["values"])
    print(json.dumps({"violated": r["violated"], "labels": r["labels"], "known": r.get("known_labels"),
                      "observed": _js(r.get("observed")), "error": r.get("error")}, indent=1, default=str))
    lab = payload.get("label", "")
    if lab.startswith("exception:") and r.get("error_type") == lab.split(":", 1)[1]:
        r["violated"] = True
    if r["violated"]:
        print(f"VIOLATION property={payload['property']} replay={path}")
        return 1
    return 0


def main(argv=None):
    import argparse

    ap = argparse.ArgumentParser()
    ap.add_argument("prop")
    ap.add_argument("--tier", default=os.environ.get("VERIF_TIER", "quick"), choices=["quick", "thorough"])
    ap.add_argument("--replay")
    a = ap.parse_args(argv)
    seed = int(os.environ.get("VERIF_SEED", "0"))
    sys.path.insert(0, VERIF)
    if a.replay:
        return main_replay(a.replay)
    return main_check(a.prop.upper(), a.tier, seed)


if __name__ == "__main__":
    sys.exit(main())
