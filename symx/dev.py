"""Single-process development runner: python -m symx.dev harness.c03 make_envelope "(2,(2,1))" [budget_s] [--profile]"""
import sys, time, importlib, ast, json
sys.path.insert(0, "/verif")
from symx import core


def main():
    modname, make, args = sys.argv[1], sys.argv[2], ast.literal_eval(sys.argv[3])
    budget = float(sys.argv[4]) if len(sys.argv) > 4 and not sys.argv[4].startswith("--") else 60
    mod = importlib.import_module(modname)
    if hasattr(mod, "install"):
        mod.install()
    fn = getattr(mod, make)(*args)
    inc = "--noinc" not in sys.argv
    dl = [int(a.split("=")[1]) for a in sys.argv if a.startswith("--dl=")]
    ex = core.Explorer(replay_fn=lambda v: core.run_concrete(fn, v), validate_every=0 if "--noval" in sys.argv else 20, max_validate=50, incremental=inc, decision_limit=dl[0] if dl else 6000)
    t = time.time()
    if "--profile" in sys.argv:
        import cProfile, pstats
        pr = cProfile.Profile(); pr.enable()
    st, left = ex.explore(fn, budget_s=budget)
    if "--profile" in sys.argv:
        pr.disable(); pstats.Stats(pr).sort_stats("cumulative").print_stats(35)
    print(st, "leftover", len(left), {k: (round(v, 2) if isinstance(v, float) else v) for k, v in ex.stats.items()}, "wall", round(time.time() - t, 1))
    print("inconclusive", sorted(set(ex.inconclusive))[:5], len(ex.inconclusive))
    print("labels", ex.check_labels)
    for s in ex.samples[:3]:
        print("sample", json.dumps(s, default=str)[:600])
    if st == "violation":
        v = ex.violation
        print("VIOLATION", v.label, json.dumps(v.values, default=str), str(v.detail)[:800])
    for u in ex.unreproduced[:3]:
        print("UNREPRODUCED", u)


main()
